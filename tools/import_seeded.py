#!/venv/bin/python
"""Copy confirmed seeded changes into /verif/seeded/<id>/ with meta.json.  usage: tools/import_seeded.py results.json [prefix]"""
import json, os, re, shutil, sys
ROOT = os.path.dirname(os.path.dirname(os.path.abspath(__file__)))
results = json.load(open(sys.argv[1]))
prefix = sys.argv[2] if len(sys.argv) > 2 else ""
src_root = sys.argv[3] if len(sys.argv) > 3 else "/tmp/seeded-"
for r in results:
    prop, m = r["mutant"].split("/")
    src = "%s%s/%s" % (src_root, prop, m)
    if not (r.get("demo_clean_rc") == 0 and r.get("demo_mutant_rc") == 1 and r.get("tests") == "REGRESSIONS: 0"):
        print("skip (not confirmed):", r["mutant"], r.get("error"))
        continue
    dst = os.path.join(ROOT, "seeded", "%s-%s%s" % (prop, prefix, m))
    os.makedirs(dst, exist_ok=True)
    for f in ("patch.diff", "demo.py", "notes.md"):
        if os.path.exists(os.path.join(src, f)):
            shutil.copy(os.path.join(src, f), os.path.join(dst, f))
    notes = open(os.path.join(src, "notes.md")).read() if os.path.exists(os.path.join(src, "notes.md")) else ""
    needs = ""
    mm = re.search(r"(?is)(what (?:exactly )?(?:is|it) need[^\n]*\n.*?)(?:\n#|\n\*\*|\Z)", notes)
    if mm:
        needs = " ".join(mm.group(1).split())[:700]
    chk = r["checks"][prop]
    meta = {
        "property": prop,
        "breaks": "see notes.md (written by the seeding sub-agent that had only the property text and a scratch worktree)",
        "needs_to_manifest": needs or "see notes.md",
        "files_changed": sorted(set(re.findall(r"^\+\+\+ b/(\S+)", open(os.path.join(src, "patch.diff")).read(), re.M))),
        "confirmed": {
            "how": "tools/run_seeded.py: scratch worktree of /repo HEAD under /tmp, git apply patch.diff, removed afterwards",
            "patch_applied": r.get("applied"),
            "demo_on_unchanged_tree_rc": r["demo_clean_rc"], "demo_with_change_rc": r["demo_mutant_rc"],
            "repository_tests_with_change": r["tests"],
        },
        "check_result": {"command": "BNPMON_REPO=<worktree> ./check %s --tier quick --no-evidence --shards 8" % prop, "exit_code": chk["rc"], "caught": bool(r.get("caught")),
                         "violation_keys": chk["violation_keys"], "wall_s": chk["wall_s"]},
    }
    json.dump(meta, open(os.path.join(dst, "meta.json"), "w"), indent=1)
    print("imported", dst)
