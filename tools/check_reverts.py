#!/venv/bin/python
"""For every repaired defect (status "fixed" in KNOWN_FINDINGS.jsonl): revert its fix: commit in a scratch worktree of /repo HEAD and run the property's
quick check against that tree.  A fixed entry suppresses nothing, so the check must report the violation again.

usage: tools/check_reverts.py [--jobs 4] [--out results.json] [commit ...]
"""
import argparse, json, os, re, shutil, subprocess, sys, tempfile
from concurrent.futures import ThreadPoolExecutor

ROOT = os.path.dirname(os.path.dirname(os.path.abspath(__file__)))


def sh(cmd, **kw):
    return subprocess.run(cmd, capture_output=True, text=True, **kw)


def run_one(commit, props, keys):
    wt = tempfile.mkdtemp(prefix="rev-%s-" % commit, dir="/tmp")
    os.rmdir(wt)
    res = {"commit": commit, "properties": sorted(props), "recorded_keys": sorted(keys)}
    try:
        r = sh(["git", "-C", "/repo", "worktree", "add", "--detach", wt, "HEAD"])
        if r.returncode:
            res["error"] = "worktree: " + r.stderr[-200:]
            return res
        r = sh(["git", "-C", wt, "revert", "--no-commit", commit])
        res["tree"] = "HEAD with the repair reverted"
        if r.returncode:
            # later repairs touch the same lines: use the tree as it was just before the repair (it also lacks the later repairs, so other keys may fire too)
            sh(["git", "-C", wt, "revert", "--abort"])
            sh(["git", "-C", wt, "checkout", "-q", "--detach", commit + "~1"])
            sh(["git", "-C", wt, "checkout", "-q", "--", "."])
            res["tree"] = "parent of the repair"
        # a reverted tree that no longer imports (a later repair builds on this one) says nothing: use the parent of the repair instead
        if res["tree"].startswith("HEAD"):
            imp = sh(["/venv/bin/python", "-W", "ignore", "-c", "import bionumpy"], env=dict(os.environ, PYTHONPATH=wt))
            if imp.returncode:
                sh(["git", "-C", wt, "checkout", "-q", "--", "."])
                sh(["git", "-C", wt, "checkout", "-q", "--detach", commit + "~1"])
                res["tree"] = "parent of the repair"
        res["checks"] = {}
        for p in sorted(props):
            k = sh([os.path.join(ROOT, "check"), p, "--tier", "quick", "--no-evidence"], env=dict(os.environ, BNPMON_REPO=wt, PYTHONDONTWRITEBYTECODE="1"), cwd=ROOT, timeout=7200)
            found = re.findall(r"VIOLATION property=\S+ replay=\S+ key=(\S+)", k.stdout)
            res["checks"][p] = {"rc": k.returncode, "violation_keys": found[:8], "recorded_key_reappeared": sorted(set(found) & set(keys))}
        res["reported_again"] = any(c["rc"] == 1 and (c["recorded_key_reappeared"] or res["tree"].startswith("HEAD")) for c in res["checks"].values())
    except Exception as e:
        res["error"] = repr(e)
    finally:
        sh(["git", "-C", "/repo", "worktree", "remove", "--force", wt])
        shutil.rmtree(wt, ignore_errors=True)
    return res


def main():
    ap = argparse.ArgumentParser()
    ap.add_argument("commits", nargs="*")
    ap.add_argument("--jobs", type=int, default=3)
    ap.add_argument("--out", default=None)
    a = ap.parse_args()
    by = {}
    for l in open(os.path.join(ROOT, "KNOWN_FINDINGS.jsonl")):
        d = json.loads(l)
        if d["status"] == "fixed":
            e = by.setdefault(d["commit"], {"props": set(), "keys": set()})
            e["props"].add(d["property"])
            e["keys"].add(d["key"])
    commits = a.commits or sorted(by)
    with ThreadPoolExecutor(a.jobs) as ex:
        results = list(ex.map(lambda c: run_one(c, by[c]["props"], by[c]["keys"]), commits))
    for r in results:
        print(json.dumps(r))
    if a.out:
        json.dump(results, open(a.out, "w"), indent=1)
    ok = sum(1 for r in results if r.get("reported_again"))
    print("reported again after reverting the repair: %d of %d (%d reverts do not apply)" % (ok, len(results), sum(1 for r in results if "error" in r)))


if __name__ == "__main__":
    main()
