#!/bin/bash
# usage: tools/rebase_patch.sh <seeded dir> ...   -- re-express patch.diff against /repo HEAD when it only applies with --3way / fuzz (later repairs moved the context)
for d in "$@"; do
  wt=$(mktemp -d /tmp/mut-rb-XXXXXX); rmdir $wt
  git -C /repo worktree add --detach $wt HEAD -q || continue
  if git -C $wt apply $d/patch.diff 2>/dev/null; then echo "$d: applies cleanly"; else
    if git -C $wt apply --3way $d/patch.diff 2>/dev/null || (git -C $wt reset -q --hard HEAD && cd $wt && patch -p1 --fuzz=3 < $d/patch.diff >/dev/null 2>&1 && ! grep -rlq '^<<<<<<< ' $wt/bionumpy); then
      [ -f $d/patch.orig.diff ] || cp $d/patch.diff $d/patch.orig.diff
      git -C $wt reset -q; git -C $wt diff > $d/patch.diff; echo "$d: rebased ($(wc -l < $d/patch.diff) lines)"
    else echo "$d: DOES NOT APPLY"; fi
  fi
  git -C /repo worktree remove --force $wt; rm -rf $wt
done
