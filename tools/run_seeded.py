#!/venv/bin/python
"""Validate the monitors against seeded changes.

usage: tools/run_seeded.py <dir-with-mutants> [--only C01/m1 ...] [--tier quick] [--jobs 4]
A mutant directory holds patch.diff, demo.py (exit 0 on the unchanged tree, 1 with the change).  For each mutant a scratch
worktree of /repo HEAD is created under /tmp, the patch applied, demo + repository tests + the property's check are run
against that tree (BNPMON_REPO), and the worktree is removed.  Nothing is applied to /repo itself.
"""
import argparse, json, os, re, shutil, subprocess, sys, tempfile, time
from concurrent.futures import ThreadPoolExecutor

ROOT = os.path.dirname(os.path.dirname(os.path.abspath(__file__)))


def sh(cmd, **kw):
    return subprocess.run(cmd, shell=isinstance(cmd, str), capture_output=True, text=True, **kw)


_BASE = {}
SEED = 0
CHECK_ONLY = False
_BASE_LOCK = __import__("threading").Lock()


def baseline_keys(prop, tier):
    """violation keys the same command reports on the unchanged tree (same shard count and seed): they say nothing about a seeded change"""
    with _BASE_LOCK:
        if prop not in _BASE:
            k = subprocess.run([os.path.join(ROOT, "check"), prop, "--tier", tier, "--no-evidence", "--shards", "8", "--seed", str(SEED)], env=dict(os.environ, PYTHONDONTWRITEBYTECODE="1"), capture_output=True, text=True, timeout=7200, cwd=ROOT)
            _BASE[prop] = {"rc": k.returncode, "keys": sorted(set(re.findall(r"VIOLATION property=\S+ replay=\S+ key=(\S+)", k.stdout)))}
        return _BASE[prop]


def run_one(prop, mdir, tier, checks_extra=()):
    name = "%s/%s" % (prop, os.path.basename(mdir))
    wt = tempfile.mkdtemp(prefix="mut-%s-" % prop, dir="/tmp")
    os.rmdir(wt)
    res = {"mutant": name, "property": prop}
    try:
        r = sh(["git", "-C", "/repo", "worktree", "add", "--detach", wt, "HEAD"])
        if r.returncode:
            res["error"] = "worktree: " + r.stderr[-200:]
            return res
        patch = os.path.join(mdir, "patch.diff")
        r = sh(["git", "-C", wt, "apply", patch])
        if r.returncode:
            r = sh(["git", "-C", wt, "apply", "--3way", patch])
            if r.returncode:
                # a 3-way attempt that ends in conflicts leaves markers in the files: start from the clean tree again
                sh(["git", "-C", wt, "reset", "-q", "--hard", "HEAD"])
                r = sh("cd %s && patch -p1 --fuzz=3 < %s" % (wt, patch))
                if r.returncode:
                    res["error"] = "patch does not apply to the current tree"
                    return res
            res["applied"] = "3way/fuzz"
        else:
            res["applied"] = "clean"
        imp = subprocess.run(["/venv/bin/python", "-W", "ignore", "-c", "import bionumpy, bionumpy.io, bionumpy.genomic_data"], env=dict(os.environ, PYTHONPATH=wt, PYTHONDONTWRITEBYTECODE="1"), capture_output=True, text=True, cwd="/tmp")
        if imp.returncode:
            res["error"] = "the patched tree does not import (patch needs rebasing): " + imp.stderr[-200:]
            return res
        env = dict(os.environ, PYTHONDONTWRITEBYTECODE="1")
        demo = os.path.join(mdir, "demo.py")
        t0 = time.time()
        if not CHECK_ONLY:
            c = subprocess.run(["/venv/bin/python", demo], env=dict(env, PYTHONPATH="/repo"), capture_output=True, text=True, timeout=600, cwd="/tmp")
            m = subprocess.run(["/venv/bin/python", demo], env=dict(env, PYTHONPATH=wt), capture_output=True, text=True, timeout=600, cwd="/tmp")
            res["demo_clean_rc"], res["demo_mutant_rc"] = c.returncode, m.returncode
            t = sh([os.path.join(ROOT, "tools", "seeding", "run_tests.sh"), wt])
            res["tests"] = (t.stdout.strip().splitlines() or ["?"])[1] if t else "not run"
        for p in [prop] + list(checks_extra):
            t1 = time.time()
            k = subprocess.run([os.path.join(ROOT, "check"), p, "--tier", tier, "--no-evidence", "--shards", "8", "--seed", str(SEED)], env=dict(env, BNPMON_REPO=wt), capture_output=True, text=True, timeout=7200, cwd=ROOT)
            keys = re.findall(r"VIOLATION property=\S+ replay=\S+ key=(\S+)", k.stdout)
            base = baseline_keys(p, tier)
            keys = [x for x in keys if x not in base["keys"]]
            res.setdefault("checks", {})[p] = {"rc": k.returncode, "violation_keys": keys[:6], "unchanged_tree_same_command": base, "wall_s": round(time.time() - t1, 1), "tail": k.stdout.strip().splitlines()[-1][:200] if k.stdout.strip() else k.stderr[-200:]}
        res["caught"] = res["checks"][prop]["rc"] == 1 and bool(res["checks"][prop]["violation_keys"])
    except Exception as e:
        res["error"] = repr(e)
    finally:
        sh(["git", "-C", "/repo", "worktree", "remove", "--force", wt])
        shutil.rmtree(wt, ignore_errors=True)
    return res


def main():
    ap = argparse.ArgumentParser()
    ap.add_argument("dirs", nargs="+", help="mutant directories .../<Cxx>.../mN or /verif/seeded/<id>")
    ap.add_argument("--tier", default="quick")
    ap.add_argument("--jobs", type=int, default=3)
    ap.add_argument("--out", default=None)
    ap.add_argument("--seed", type=int, default=0)
    ap.add_argument("--check-only", action="store_true", help="skip demo and repository tests (already confirmed): only run the check")
    a = ap.parse_args()
    global SEED, CHECK_ONLY
    SEED, CHECK_ONLY = a.seed, a.check_only
    jobs = []
    for d in a.dirs:
        d = os.path.abspath(d.rstrip("/"))
        meta = os.path.join(d, "meta.json")
        if os.path.exists(meta):
            prop = json.load(open(meta))["property"]
        else:
            prop = re.search(r"(C\d\d)", d).group(1)
        jobs.append((prop, d))
    with ThreadPoolExecutor(a.jobs) as ex:
        results = list(ex.map(lambda j: run_one(j[0], j[1], a.tier), jobs))
    for r in results:
        print(json.dumps(r))
    if a.out:
        json.dump(results, open(a.out, "w"), indent=1)
    n = sum(1 for r in results if r.get("caught"))
    print("caught %d of %d" % (n, len(results)))


if __name__ == "__main__":
    main()
