#!/bin/bash
# usage: tools/seeding/run_tests.sh <tree>   -- runs the repository test suite in <tree> and reports regressions vs. the stable baseline
TREE=${1:?tree}
HERE="$(cd "$(dirname "$0")" && pwd)"
OUT=$(mktemp /tmp/junit.XXXXXX.xml)
cd "$TREE" && PYTHONPATH="$TREE" PYTHONDONTWRITEBYTECODE=1 /venv/bin/python -m pytest -q -p no:cacheprovider --timeout=900 --continue-on-collection-errors --junitxml="$OUT" >/dev/null 2>&1
/venv/bin/python - "$OUT" "$HERE/stable_pass.txt" <<'PY'
import sys, xml.etree.ElementTree as ET
stable=set(open(sys.argv[2]).read().split('\n'))-{''}
passed=set()
for tc in ET.parse(sys.argv[1]).getroot().iter('testcase'):
    name=tc.get('classname')+'::'+tc.get('name')
    if not any(c.tag in ('failure','error','skipped') for c in tc):
        passed.add(name)
reg=sorted(stable-passed)
print('stable baseline tests:',len(stable),' passing now:',len(stable&passed))
print('REGRESSIONS:',len(reg))
for r in reg: print('  ',r)
sys.exit(1 if reg else 0)
PY
rc=$?
rm -f "$OUT"
exit $rc
