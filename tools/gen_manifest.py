#!/venv/bin/python
"""Regenerate MANIFEST.json from the workloads that exist (keeps the manifest valid while checks are being built)."""
import json, os, sys
ROOT = os.path.dirname(os.path.dirname(os.path.abspath(__file__)))
sys.path.insert(0, ROOT)
INFO = json.load(open(os.path.join(ROOT, "tools", "manifest_info.json")))
props = [json.loads(l) for l in open(os.path.join(ROOT, "properties.jsonl"))]
checks, na = [], []
for p in props:
    pid = p["id"]
    info = INFO.get(pid, {})
    if os.path.exists(os.path.join(ROOT, "bnpmon", "workloads", pid + ".py")) and not info.get("not_applicable"):
        checks.append({
            "property_id": pid,
            "quick_cmd": "./check %s --tier quick" % pid,
            "thorough_cmd": "./check %s --tier thorough" % pid,
            "evidence_file": "/verif/evidence/%s.json" % pid,
            "replay_cmd_template": "./check %s --replay {path}" % pid,
            "engine": "bnpmon",
            "level_claimed": {"category": "exploration", "text": info.get("text", ""), "design_ref": "DESIGN.md §5 " + pid},
            "level_note": info.get("note", ""),
            "technique": info.get("technique", "runtime monitoring"),
        })
    else:
        na.append({"property_id": pid, "reason": info.get("not_applicable") or "check not built yet in this session (workload pending); runtime monitoring applies, see DESIGN.md §5"})
manifest = {
    "version": 1,
    "setup_cmd": "bash ./setup.sh",
    "hooks": {"guard": "BIONUMPY_VERIF", "enable": "no source hooks: all monitors are attached from the harness at run time (bnpmon/install.py, icontract, sys.monitoring); BIONUMPY_VERIF is reserved and unused by the library",
              "baseline_off_cmd": "cd /repo && /venv/bin/python -m pytest -ra -q -p no:cacheprovider --timeout=900 --continue-on-collection-errors",
              "source_commits": [], "add_only": True},
    "engines": [{"name": "bnpmon", "path": "/verif/bnpmon", "serves_properties": [c["property_id"] for c in checks],
                 "kind_free_text": "runtime monitoring harness: sharded workloads drive the real library; oracles = reference models + contracts on live functions + sys.monitoring path signatures; three-valued verdicts"}],
    "checks": checks,
    "notes": "Exit codes: 0 held (KNOWN-FINDING lines allowed), 1 VIOLATION, 2 INCONCLUSIVE (never on the unchanged tree). Known findings: /verif/KNOWN_FINDINGS.jsonl (mechanism keys).",
    "not_applicable": na,
}
json.dump(manifest, open(os.path.join(ROOT, "MANIFEST.json"), "w"), indent=1)
import jsonschema
jsonschema.validate(manifest, json.load(open("/root/.vp/MANIFEST.schema.json")))
print("MANIFEST ok:", len(checks), "checks,", len(na), "not_applicable")
