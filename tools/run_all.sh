#!/bin/bash
# usage: tools/run_all.sh quick|thorough [seed]   -- runs every check of MANIFEST.json in turn and prints one summary line each
cd "$(dirname "$0")/.."
tier=${1:-quick}; seed=${2:-0}
for p in $(/venv/bin/python -c "import json; print(' '.join(c['property_id'] for c in json.load(open('MANIFEST.json'))['checks']))"); do
  out=$(VERIF_SEED=$seed ./check $p --tier $tier 2>&1); rc=$?
  echo "rc=$rc $(echo "$out" | grep -E "^C[0-9]+: verdict" | tail -1)"
  echo "$out" | grep -E "^(VIOLATION|INCONCLUSIVE)" | cut -c1-300
done
