#!/bin/bash
# MANIFEST.setup_cmd: offline install of the runtime-contract libraries beside the repository's interpreter.
# Everything else the checks need is in /venv already.  Idempotent; also invoked by ./check when .deps is missing.
set -e
cd "$(dirname "$0")"
if ! PYTHONPATH="$PWD/.deps" /venv/bin/python -c "import icontract, deal" >/dev/null 2>&1; then
  rm -rf .deps
  PIP_NO_INDEX=1 /venv/bin/pip install -q --no-index --find-links /opt/veriftools/wheels --target "$PWD/.deps" icontract deal >/dev/null 2>&1 || {
    echo "setup: could not install icontract/deal from /opt/veriftools/wheels" >&2; exit 1; }
fi
PYTHONPATH="$PWD/.deps" /venv/bin/python -c "import icontract, deal, numpy, npstructures, jsonschema; print('setup ok: icontract', icontract.__version__, 'deal', deal.__version__)"
