"""Attach monitors to the live library from outside: rebinding of wrapped functions in every importing module."""
import functools
import sys
import types


def rebind_everywhere(orig, new, prefixes=("bionumpy",)):
    """Replace every reference to `orig` held in a module namespace or class dict of the library by `new`.
    Returns the number of rebinding sites (0 means the contract can never run -> inconclusive)."""
    n = 0
    for name, mod in list(sys.modules.items()):
        if mod is None or not name.startswith(prefixes):
            continue
        for k, v in list(vars(mod).items()):
            if v is orig:
                setattr(mod, k, new)
                n += 1
            elif isinstance(v, type) and (getattr(v, "__module__", "") or "").startswith(prefixes):
                for ck, cv in list(vars(v).items()):
                    target = cv.__func__ if isinstance(cv, (staticmethod, classmethod)) else cv
                    if target is orig:
                        wrapped = type(cv)(new) if isinstance(cv, (staticmethod, classmethod)) else new
                        try:
                            setattr(v, ck, wrapped)
                            n += 1
                        except (AttributeError, TypeError):
                            pass
    return n


def monitor_function(module, name, post=None, pre=None, on_exception=None):
    """Wrap module.name with pre/post observers (observers never change the result) and rebind everywhere.
    post(result, args, kwargs, pre_state); pre(args, kwargs) -> pre_state."""
    orig = getattr(module, name)
    if getattr(orig, "__bnpmon__", False):
        return orig, 0
    depth = {"n": 0}

    @functools.wraps(orig)
    def wrapper(*args, **kwargs):
        state = None
        outer = depth["n"] == 0
        depth["n"] += 1
        try:
            if pre is not None and outer:
                state = pre(args, kwargs)
            try:
                result = orig(*args, **kwargs)
            except BaseException as e:
                if on_exception is not None and outer:
                    on_exception(e, args, kwargs, state)
                raise
        finally:
            depth["n"] -= 1
        if post is not None and outer:
            post(result, args, kwargs, state)
        return result

    wrapper.__bnpmon__ = True
    wrapper.__wrapped__ = orig
    n = rebind_everywhere(orig, wrapper)
    return wrapper, n


def monitor_method(cls, name, post=None, pre=None, on_exception=None):
    """Wrap a method defined on cls (instance method, or property getter when the attribute is a property)."""
    raw = cls.__dict__[name]
    if isinstance(raw, property):
        fget = raw.fget

        @functools.wraps(fget)
        def getter(self):
            state = pre((self,), {}) if pre else None
            try:
                r = fget(self)
            except BaseException as e:
                if on_exception:
                    on_exception(e, (self,), {}, state)
                raise
            if post:
                post(r, (self,), {}, state)
            return r
        setattr(cls, name, property(getter, raw.fset, raw.fdel, raw.__doc__))
        return
    is_cm = isinstance(raw, classmethod)
    is_sm = isinstance(raw, staticmethod)
    fn = raw.__func__ if (is_cm or is_sm) else raw

    @functools.wraps(fn)
    def wrapper(*args, **kwargs):
        state = pre(args, kwargs) if pre else None
        try:
            r = fn(*args, **kwargs)
        except BaseException as e:
            if on_exception:
                on_exception(e, args, kwargs, state)
            raise
        if post:
            post(r, args, kwargs, state)
        return r
    wrapper.__bnpmon__ = True
    if is_cm:
        setattr(cls, name, classmethod(wrapper))
    elif is_sm:
        setattr(cls, name, staticmethod(wrapper))
    else:
        setattr(cls, name, wrapper)
