"""Shard-side context: counters, verdict bookkeeping, the M1 path-signature monitor, witness conversion.

A workload module defines ``run(ctx)`` and drives the real library; every judgement goes through
``ctx.judge`` / ``ctx.violation`` so that the runner can tell what the monitors actually observed.
"""
import hashlib
import json
import os
import random
import sys
import time
import traceback

import numpy as np


def _h(obj) -> int:
    if not isinstance(obj, (bytes, bytearray)):
        obj = repr(obj).encode("utf8", "surrogateescape")
    return int.from_bytes(hashlib.blake2b(obj, digest_size=8).digest(), "big")


def to_py(x, depth=0):
    """Convert bionumpy / numpy objects to plain Python for comparison and JSON witnesses."""
    if depth > 6:
        return repr(x)
    if x is None or isinstance(x, (bool, int, str)):
        return x
    if isinstance(x, float):
        return x
    if isinstance(x, bytes):
        return x.decode("latin1")
    if isinstance(x, (np.bool_,)):
        return bool(x)
    if isinstance(x, np.integer):
        return int(x)
    if isinstance(x, np.floating):
        return float(x)
    if isinstance(x, (list, tuple)):
        return [to_py(e, depth + 1) for e in x]
    if isinstance(x, dict):
        return {str(k): to_py(v, depth + 1) for k, v in x.items()}
    if isinstance(x, (set, frozenset)):
        return sorted(to_py(e, depth + 1) for e in x)
    mod = type(x).__module__ or ""
    name = type(x).__name__
    if isinstance(x, np.ndarray):
        if x.dtype.kind in "SU":
            return [str(e) if not isinstance(e, bytes) else e.decode("latin1") for e in x.tolist()] if x.ndim == 1 else x.tolist()
        return x.tolist()
    if name == "EncodedRaggedArray":
        try:
            return [r if isinstance(r, str) else "".join(r) for r in x.tolist()]
        except Exception as e:
            return "<unprintable %s: %r>" % (name, e)
    if name == "EncodedArray":
        try:
            if x.ndim <= 1:
                return x.to_string()
            from bnpmon.util import text_rows
            return text_rows(x)
        except Exception as e:
            return "<unprintable %s: %r>" % (name, e)
    if name == "StringArray":
        return [str(e) for e in x.tolist()]
    if name == "RaggedArray" or hasattr(x, "_shape") and hasattr(x, "ravel") and hasattr(x, "tolist"):
        try:
            return to_py(x.tolist(), depth + 1)
        except Exception as e:  # pragma: no cover
            return "<unprintable %s: %r>" % (name, e)
    if hasattr(x, "tolist") and mod.startswith(("bionumpy", "npstructures")):
        try:
            return to_py(x.tolist(), depth + 1)
        except Exception as e:
            return "<unprintable %s: %r>" % (name, e)
    if hasattr(x, "__dataclass_fields__"):
        return {k: to_py(getattr(x, k), depth + 1) for k in x.__dataclass_fields__}
    return repr(x)


def jsonable(x):
    x = to_py(x)
    try:
        json.dumps(x)
        return x
    except (TypeError, ValueError):
        return json.loads(json.dumps(x, default=repr))


class BnpFailure(Exception):
    """Raised by workloads to mark 'the library raised where the property promises a value'."""


def exc_site(exc, prefer=("bionumpy",)):
    """(ExcType, innermost bionumpy function) of an exception — used in mechanism keys."""
    tb = traceback.extract_tb(exc.__traceback__)
    site = None
    for fr in tb:
        fn = fr.filename.replace("\\", "/")
        if "/bionumpy/" in fn and "/bnpmon/" not in fn:
            site = os.path.basename(fn)[:-3] + "." + fr.name
    if site is None and tb:
        fr = tb[-1]
        site = os.path.basename(fr.filename)[:-3] + "." + fr.name
    return type(exc).__name__, site or "?"


def originates_in_library(exc):
    if getattr(exc, "library_fault", False):
        return True
    tb = traceback.extract_tb(exc.__traceback__)
    if not tb:
        return False
    # the innermost frame that is either harness code or library code decides (standard-library frames below it - gzip, io, pickle - belong to whoever called them)
    for frame in reversed(tb):
        fn = frame.filename.replace("\\", "/")
        if "/bnpmon/" in fn:
            return False
        if any(s in fn for s in ("/bionumpy/", "/npstructures/", "/numpy/", "/site-packages/")):
            return True
    return False


class PathMonitor:
    """M1: per-case path signatures over the anchored source files, via sys.monitoring local LINE events."""

    def __init__(self, files):
        self.files = [os.path.realpath(f) for f in files]
        self.enabled = False
        self.tool = None
        self.current = set()
        self.all_lines = set()
        self.signatures = {}
        self.code_objects = {}
        self.functions_hit = set()

    def _collect(self, code, out):
        out.append(code)
        for c in code.co_consts:
            if hasattr(c, "co_code"):
                self._collect(c, out)

    def start(self):
        mon = getattr(sys, "monitoring", None)
        if mon is None:
            return
        for tid in (3, 4, 2, 5):
            try:
                if mon.get_tool(tid) is None:
                    mon.use_tool_id(tid, "bnpmon")
                    self.tool = tid
                    break
            except Exception:
                continue
        if self.tool is None:
            return
        import types
        wanted = set(self.files)
        codes = []
        seen = set()
        for m in list(sys.modules.values()):
            f = getattr(m, "__file__", None)
            if not f or os.path.realpath(f) not in wanted:
                continue
            for obj in list(vars(m).values()):
                self._walk(obj, wanted, codes, seen, types)
        ev = mon.events.LINE
        for c in codes:
            try:
                mon.set_local_events(self.tool, c, ev)
                self.code_objects[(c.co_filename, c.co_firstlineno, c.co_qualname)] = c
            except Exception:
                pass
        mon.register_callback(self.tool, ev, self._on_line)
        self.enabled = True

    def _walk(self, obj, wanted, codes, seen, types):
        if id(obj) in seen:
            return
        seen.add(id(obj))
        fn = None
        if isinstance(obj, (types.FunctionType,)):
            fn = obj
        elif isinstance(obj, (classmethod, staticmethod)):
            fn = obj.__func__
        elif isinstance(obj, property):
            for f in (obj.fget, obj.fset, obj.fdel):
                if f is not None:
                    self._walk(f, wanted, codes, seen, types)
            return
        elif isinstance(obj, type):
            for v in list(vars(obj).values()):
                self._walk(v, wanted, codes, seen, types)
            return
        elif hasattr(obj, "__wrapped__"):
            self._walk(obj.__wrapped__, wanted, codes, seen, types)
            return
        if fn is not None:
            code = getattr(fn, "__code__", None)
            if code is not None and os.path.realpath(code.co_filename) in wanted:
                self._collect(code, codes)
            w = getattr(fn, "__wrapped__", None)
            if w is not None:
                self._walk(w, wanted, codes, seen, types)

    def _on_line(self, code, line):
        self.current.add((code.co_filename, line))
        self.functions_hit.add((code.co_filename, code.co_qualname))
        return sys.monitoring.DISABLE

    def begin(self):
        if self.enabled:
            self.current = set()
            sys.monitoring.restart_events()

    def end(self, sample=None):
        if not self.enabled:
            return None
        sig = _h(sorted(self.current))
        self.all_lines |= self.current
        if sig not in self.signatures:
            self.signatures[sig] = [0, sample]
        self.signatures[sig][0] += 1
        return sig

    def report(self):
        if not self.enabled:
            return {"enabled": False}
        all_funcs = {(k[0], k[2]) for k in self.code_objects}
        missed = sorted(os.path.basename(f) + ":" + q for f, q in all_funcs - self.functions_hit)
        return {
            "enabled": True,
            "instrumented_code_objects": len(self.code_objects),
            "functions_reached": len(self.functions_hit),
            "lines_reached": len(self.all_lines),
            "distinct_path_signatures": len(self.signatures),
            "signature_hashes": list(self.signatures.keys())[:20000],
            "functions_not_reached": missed[:400],
        }


class Ctx:
    def __init__(self, prop, tier, seed, shard, nshards, tmpdir, anchors=()):
        self.prop = prop
        self.tier = tier
        self.quick = tier == "quick"
        self.seed = seed
        self.shard = shard
        self.nshards = nshards
        self.tmpdir = tmpdir
        self.rng = random.Random((seed * 1000003 + shard) * 7919 + _h(prop) % 1000)
        self.nprng = np.random.default_rng([seed, shard, _h(prop) % (2 ** 31)])
        self.evaluations = 0
        self.counters = {}
        self.distinct = set()
        self.samples = []
        self.violations = {}      # key -> {"count", "what", "witnesses"}
        self.observations = {}    # name -> {"count", "example"}
        self.floors = {}
        self.meta = {}
        self.paths = PathMonitor(anchors)
        self.t0 = time.time()
        self._file_no = 0
        self.replaying = False

    # -- workload partitioning ------------------------------------------------------------------
    def pick(self, quick, thorough):
        return quick if self.quick else thorough

    def mine(self, iterable):
        """Slice an exhaustive enumeration across shards (deterministic, seed-independent)."""
        for i, x in enumerate(iterable):
            if i % self.nshards == self.shard:
                yield x

    def share(self, total):
        """This shard's share of `total` sampled cases."""
        base, rem = divmod(int(total), self.nshards)
        return base + (1 if self.shard < rem else 0)

    def path(self, name):
        self._file_no += 1
        return os.path.join(self.tmpdir, "f%d_%s" % (self._file_no, name))

    def reuse_path(self, name):
        """the SAME path on every call (process history: a file replaced by another one under the same name)"""
        return os.path.join(self.tmpdir, "same_" + name)

    # -- bookkeeping -----------------------------------------------------------------------------
    def count(self, name, n=1):
        self.counters[name] = self.counters.get(name, 0) + n

    def judged(self, kind, nontrivial=None):
        """One oracle evaluation of class `kind`; `nontrivial` is a hashable content key or None (trivial)."""
        self.evaluations += 1
        self.count("judged:" + kind)
        if nontrivial is not None:
            self.distinct.add(_h((kind, nontrivial)))

    def sample(self, obj, force=False):
        if len(self.samples) < 4 or force:
            self.samples.append(jsonable(obj))
        elif self.rng.random() < 0.002 and len(self.samples) < 8:
            self.samples.append(jsonable(obj))

    def floor(self, counter, minimum):
        self.floors[counter] = minimum

    def observe(self, name, example=None):
        """Recorded, never judged (DESIGN: observations)."""
        o = self.observations.setdefault(name, {"count": 0, "example": None})
        o["count"] += 1
        if o["example"] is None and example is not None:
            o["example"] = jsonable(example)

    def violation(self, key, what, witness):
        full = key if key.startswith(self.prop + "/") else "%s/%s" % (self.prop, key)
        full = full.replace(" ", "-")      # keys are printed in 'key=<...>' lines: no blanks
        v = self.violations.setdefault(full, {"count": 0, "what": what, "witnesses": []})
        v["count"] += 1
        if len(v["witnesses"]) < 3:
            w = jsonable(witness)
            w = {"seed": self.seed, "shard": self.shard, "nshards": self.nshards, "tier": self.tier, **(w if isinstance(w, dict) else {"witness": w})}
            v["witnesses"].append(w)

    def check(self, kind, ok, key, what, witness, nontrivial=None):
        """Judge one oracle evaluation; returns ok."""
        self.judged(kind, nontrivial)
        if not ok:
            self.violation(key, what, witness)
        return ok

    # -- case wrapper -----------------------------------------------------------------------------
    def run_case(self, fn, case, key_prefix="unexpected-exception"):
        """Run fn(case) under the path monitor; an exception escaping from the library is a violation
        (the property promises a value), one escaping from the harness is a harness error (inconclusive)."""
        self.paths.begin()
        try:
            fn(case)
        except BnpFailure as e:
            self.violation(str(e.args[0]), str(e.args[1]) if len(e.args) > 1 else "library raised", {"case": case})
        except (KeyboardInterrupt, SystemExit):
            raise
        except BaseException as e:  # noqa
            if originates_in_library(e):
                et, site = exc_site(e)
                self.evaluations += 1
                self.violation("%s:%s@%s" % (key_prefix, et, site), "library raised %s: %s" % (et, str(e)[:200]),
                               {"case": case, "traceback": traceback.format_exc()[-1500:]})
            else:
                self.count("harness_errors")
                self.meta.setdefault("harness_errors", [])
                if len(self.meta["harness_errors"]) < 3:
                    self.meta["harness_errors"].append({"case": jsonable(case), "traceback": traceback.format_exc()[-2500:]})
        finally:
            self.paths.end(sample=None)

    def dump(self):
        return {
            "prop": self.prop, "tier": self.tier, "seed": self.seed, "shard": self.shard, "nshards": self.nshards,
            "evaluations": self.evaluations, "counters": self.counters,
            "distinct": sorted(self.distinct)[:400000], "distinct_n": len(self.distinct),
            "samples": self.samples, "violations": self.violations, "observations": self.observations,
            "floors": self.floors, "meta": self.meta, "paths": self.paths.report(),
            "wall_s": time.time() - self.t0,
        }
