"""bnpmon — runtime-monitoring harness for bionumpy properties C01..C20 (see /verif/DESIGN.md)."""
import os

VERIF_ROOT = os.path.dirname(os.path.dirname(os.path.abspath(__file__)))
REPO_ROOT = os.environ.get("BNPMON_REPO", "/repo")
PYTHON = "/venv/bin/python"
