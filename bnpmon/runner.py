"""Parent side: shard the workload over the cores, watch, merge, classify, write evidence, print the verdict."""
import argparse
import json
import os
import re
import shutil
import subprocess
import sys
import tempfile
import time

from . import VERIF_ROOT, REPO_ROOT, PYTHON

LEVEL = "exploration"


def ensure_deps():
    deps = os.path.join(VERIF_ROOT, ".deps")
    env = dict(os.environ, PYTHONPATH=deps)
    ok = subprocess.run([PYTHON, "-c", "import icontract, deal"], env=env, capture_output=True).returncode == 0
    if not ok:
        r = subprocess.run(["bash", os.path.join(VERIF_ROOT, "setup.sh")], capture_output=True, text=True)
        if r.returncode != 0:
            return False, r.stderr
    return True, ""


def load_known(prop):
    path = os.path.join(VERIF_ROOT, "KNOWN_FINDINGS.jsonl")
    known, fixed = {}, {}
    if os.path.exists(path):
        with open(path) as f:
            for line in f:
                line = line.strip()
                if not line or line.startswith("#"):
                    continue
                d = json.loads(line)
                if d.get("property") != prop:
                    continue
                (known if d.get("status") == "known" else fixed)[d["key"]] = d
    return known, fixed


def slug(s):
    return re.sub(r"[^A-Za-z0-9_.-]+", "_", s)[:120]


def shard_env():
    env = dict(os.environ)
    pp = [VERIF_ROOT, os.path.join(VERIF_ROOT, ".deps")]
    if os.environ.get("BNPMON_REPO"):
        pp.insert(0, os.environ["BNPMON_REPO"])
    env["PYTHONPATH"] = os.pathsep.join(pp)
    env["PYTHONHASHSEED"] = "0"
    env["PYTHONDONTWRITEBYTECODE"] = "1"
    env["PYTHONWARNINGS"] = "ignore"
    for v in ("OMP_NUM_THREADS", "OPENBLAS_NUM_THREADS", "MKL_NUM_THREADS"):
        env[v] = "1"
    return env


def main(argv=None):
    ap = argparse.ArgumentParser(prog="check")
    ap.add_argument("prop")
    ap.add_argument("--tier", default=os.environ.get("VERIF_TIER", "quick"), choices=["quick", "thorough"])
    ap.add_argument("--seed", type=int, default=int(os.environ.get("VERIF_SEED", "0") or 0))
    ap.add_argument("--shards", type=int, default=int(os.environ.get("BNPMON_SHARDS", "0") or 0))
    ap.add_argument("--replay", default=None)
    ap.add_argument("--timeout", type=int, default=0, help="per-shard watchdog in seconds")
    ap.add_argument("--no-evidence", action="store_true")
    a = ap.parse_args(argv)
    prop = a.prop
    t0 = time.time()
    ok, err = ensure_deps()
    if not ok:
        print("INCONCLUSIVE property=%s reason=dependencies-missing %s" % (prop, err.strip()[:200]))
        return 2
    nshards = a.shards or min(16, os.cpu_count() or 4)
    replay_spec = None
    if a.replay:
        # Replay = deterministically re-run the shard(s) that produced the recorded witnesses (seed, shard, shard count and tier are part of
        # every witness) and report whether the same mechanism key shows up again.
        with open(a.replay) as f:
            rep = json.load(f)
        ws = rep.get("witnesses") or []
        if not ws:
            print("INCONCLUSIVE property=%s reason=replay file holds no witness" % prop)
            return 2
        replay_spec = {"key": rep.get("key"), "shards": sorted({(w.get("seed", 0), w.get("shard", 0), w.get("nshards", 1), w.get("tier", "quick")) for w in ws})[:2]}
    watchdog = a.timeout or (900 if a.tier == "quick" else 4 * 3600)
    work = tempfile.mkdtemp(prefix="bnpmon-run-%s-" % prop)
    env = shard_env()
    env["BNPMON_TMP"] = work
    procs = []
    try:
        jobs = [(s, a.tier, a.seed, s, nshards) for s in range(nshards)]
        if replay_spec:
            jobs = [(i, tier, seed, sh, ns) for i, (seed, sh, ns, tier) in enumerate(replay_spec["shards"])]
        for s, tier, seed, sh, ns in jobs:
            out = os.path.join(work, "shard%d.json" % s)
            log = open(os.path.join(work, "shard%d.log" % s), "w")
            cmd = [PYTHON, "-m", "bnpmon.shard", prop, tier, str(seed), str(sh), str(ns), out]
            procs.append((s, subprocess.Popen(cmd, env=env, cwd=work, stdout=log, stderr=subprocess.STDOUT), out, log))
        results, problems = [], []
        deadline = time.time() + watchdog
        for s, p, out, log in procs:
            try:
                rc = p.wait(timeout=max(1, deadline - time.time()))
            except subprocess.TimeoutExpired:
                p.kill()
                p.wait()
                problems.append("shard %d: watchdog (%ds) fired" % (s, watchdog))
                continue
            finally:
                log.close()
            if rc != 0 or not os.path.exists(out):
                with open(os.path.join(work, "shard%d.log" % s)) as f:
                    tail = f.read()[-1500:]
                problems.append("shard %d: exit %s: %s" % (s, rc, tail.strip().replace("\n", " | ")[-600:]))
                continue
            with open(out) as f:
                results.append(json.load(f))
        if replay_spec:
            return finish_replay(a, prop, results, problems, replay_spec)
        return finish(a, prop, results, problems, t0, nshards)
    finally:
        for _, p, _, _ in procs:
            if p.poll() is None:
                p.kill()
        shutil.rmtree(work, ignore_errors=True)


def finish_replay(a, prop, results, problems, spec):
    if problems:
        print("INCONCLUSIVE property=%s reason=%s" % (prop, "; ".join(problems)[:800]))
        return 2
    key = spec["key"]
    found = None
    for r in results:
        if key in r["violations"]:
            found = r["violations"][key]
            break
    if found:
        print("VIOLATION property=%s replay=%s key=%s count=%d what=%s" % (prop, os.path.abspath(a.replay), key, found["count"], found["what"][:200]))
        print("%s: replay reproduced the recorded mechanism (shards re-run: %r)" % (prop, spec["shards"]))
        return 1
    others = sorted({k for r in results for k in r["violations"]})
    print("%s: replay did NOT reproduce %s on the current tree (shards re-run: %r; other violation keys seen: %r)" % (prop, key, spec["shards"], others[:5]))
    return 0


def finish(a, prop, results, problems, t0, nshards):
    known, fixed = load_known(prop)
    evaluations = sum(r["evaluations"] for r in results)
    distinct = set()
    distinct_overflow = 0
    for r in results:
        distinct.update(r["distinct"])
        distinct_overflow += r["distinct_n"] - len(r["distinct"])
    counters, observations, violations = {}, {}, {}
    floors, samples, meta = {}, [], {}
    sigs = set()
    paths = {"enabled": False}
    not_reached = None
    harness_errors = []
    for r in results:
        for k, v in r["counters"].items():
            counters[k] = counters.get(k, 0) + v
        for k, v in r["observations"].items():
            o = observations.setdefault(k, {"count": 0, "example": None})
            o["count"] += v["count"]
            o["example"] = o["example"] if o["example"] is not None else v["example"]
        for k, v in r["violations"].items():
            o = violations.setdefault(k, {"count": 0, "what": v["what"], "witnesses": []})
            o["count"] += v["count"]
            o["witnesses"] = (o["witnesses"] + v["witnesses"])[:3]
        floors.update(r["floors"])
        samples.extend(r["samples"][:2])
        for k, v in r["meta"].items():
            if k == "harness_errors":
                harness_errors.extend(v)
            else:
                meta.setdefault(k, v)
        p = r["paths"]
        if p.get("enabled"):
            paths["enabled"] = True
            sigs.update(p["signature_hashes"])
            for k in ("instrumented_code_objects",):
                paths[k] = max(paths.get(k, 0), p[k])
            nr = set(p["functions_not_reached"])
            not_reached = nr if not_reached is None else (not_reached & nr)
    if paths["enabled"]:
        paths["distinct_path_signatures"] = len(sigs)
        paths["anchored_functions_never_reached"] = sorted(not_reached or [])[:150]
        paths["anchored_functions_never_reached_n"] = len(not_reached or [])

    lines = []
    new_keys, known_seen = [], []
    for key in sorted(violations):
        if key in known:
            known_seen.append(key)
        else:
            new_keys.append(key)
    for key in known_seen:
        lines.append("KNOWN-FINDING: property=%s %s — %s (re-observed %d times)" % (prop, key, known[key].get("what", ""), violations[key]["count"]))
    replay_dir = os.path.join(VERIF_ROOT, "replays", "tmp")
    os.makedirs(replay_dir, exist_ok=True)
    for key in new_keys:
        v = violations[key]
        rp = os.path.join(replay_dir, "%s.json" % slug(key))
        with open(rp, "w") as f:
            json.dump({"property": prop, "key": key, "what": v["what"], "count": v["count"], "tier": a.tier, "seed": a.seed,
                       "was_fixed_entry": key in fixed, "witnesses": v["witnesses"]}, f, indent=1, default=repr)
        lines.append("VIOLATION property=%s replay=%s key=%s count=%d what=%s" % (prop, rp, key, v["count"], v["what"][:160]))

    inconclusive = list(problems)
    if a.replay is None:
        if evaluations == 0:
            inconclusive.append("no oracle evaluation happened")
        for cname, minimum in sorted(floors.items()):
            if counters.get(cname, 0) < minimum:
                inconclusive.append("floor not met: %s=%d < %d" % (cname, counters.get(cname, 0), minimum))
    if harness_errors or counters.get("harness_errors"):
        inconclusive.append("harness errors: %d (first: %s)" % (counters.get("harness_errors", len(harness_errors)),
                                                               (harness_errors[0]["traceback"].strip().splitlines() or ["?"])[-1][:300] if harness_errors else "?"))
    if new_keys:
        verdict, rc = "violated", 1
    elif inconclusive:
        verdict, rc = "inconclusive", 2
        lines.append("INCONCLUSIVE property=%s reason=%s" % (prop, "; ".join(inconclusive)[:1500]))
    else:
        verdict, rc = ("held-with-known-findings" if known_seen else "held"), 0

    wall = time.time() - t0
    n_distinct = len(distinct) + 0  # overflow beyond the per-shard cap is not counted (conservative)
    evidence = {
        "property_id": prop, "tier": a.tier, "seed": a.seed, "level": LEVEL,
        "coverage": {
            "evaluations": evaluations,
            "distinct_nontrivial": n_distinct,
            "rule": meta.get("rule", ""),
            "samples": samples[:8] or [{"note": "no sample recorded"}],
            "exhaustive": False,
            "exhaustive_core": meta.get("exhaustive_core"),
            "verdict": verdict,
            "judged_by_class": {k[7:]: v for k, v in sorted(counters.items()) if k.startswith("judged:")},
            "monitor_counters": {k: v for k, v in sorted(counters.items()) if not k.startswith("judged:")},
            "observations_recorded_not_judged": observations,
            "path_monitor": paths,
            "violation_keys": {k: v["count"] for k, v in violations.items()},
            "known_findings_reobserved": known_seen,
            "known_findings_listed_not_observed": sorted(set(known) - set(known_seen)),
            "new_violation_keys": new_keys,
            "inconclusive_reasons": inconclusive,
            "harness_error_samples": harness_errors[:3],
            "shards": nshards, "shards_completed": len(results),
            "distinct_not_counted_over_cap": distinct_overflow,
            "extra": {k: v for k, v in meta.items() if k not in ("rule", "assumptions", "exhaustive_core")},
        },
        "assumptions": meta.get("assumptions", []),
        "wall_s": round(wall, 2),
        "violations": len(new_keys),
    }
    if not a.no_evidence and a.replay is None:
        os.makedirs(os.path.join(VERIF_ROOT, "evidence"), exist_ok=True)
        tmp = os.path.join(VERIF_ROOT, "evidence", ".%s.json.tmp" % prop)
        with open(tmp, "w") as f:
            json.dump(evidence, f, indent=1, default=repr)
        os.replace(tmp, os.path.join(VERIF_ROOT, "evidence", "%s.json" % prop))
    for ln in lines:
        print(ln)
    print("%s: verdict=%s tier=%s seed=%d evaluations=%d distinct_nontrivial=%d path_signatures=%s known=%d new=%d wall=%.1fs" % (
        prop, verdict, a.tier, a.seed, evaluations, n_distinct, paths.get("distinct_path_signatures", "-"), len(known_seen), len(new_keys), wall))
    if observations:
        print("  observations (not judged): " + ", ".join("%s=%d" % (k, v["count"]) for k, v in sorted(observations.items())))
    return rc


if __name__ == "__main__":
    sys.exit(main())
