"""Client-boundary helpers around the real library: opening generated files, turning tables into plain columns,
comparing them with the generating records."""
import dataclasses
import gzip as _gzip
import math
import os

import numpy as np

from .ctx import to_py
from .models.formats import FORMATS, float_close


_DELIMITED = {}


def get_buffer_type(name):
    if name is None:
        return None
    import bionumpy as bnp
    if name.startswith("@delimited:"):
        # a user-defined table type read through get_bufferclass_for_datatype (header line, custom delimiter)
        if name not in _DELIMITED:
            from bionumpy.bnpdataclass import bnpdataclass
            from bionumpy.io.delimited_buffers import get_bufferclass_for_datatype

            @bnpdataclass
            class Peak4:
                chromosome: str
                start: int
                stop: int
                score: int
            _DELIMITED[name] = get_bufferclass_for_datatype(Peak4, delimiter=name.split(":", 1)[1], has_header=True)
        return _DELIMITED[name]
    import bionumpy.io.one_line_buffer as olb
    import bionumpy.io.delimited_buffers as db
    import bionumpy.io.vcf_buffers as vb
    import bionumpy.io.multiline_buffer as mb
    import bionumpy.io.bam as bam
    import bionumpy.io.buffers.sam as sam
    import bionumpy.io.fastq_buffer as fq
    for m in (bnp, olb, db, vb, mb, bam, sam, fq):
        if hasattr(m, name):
            return getattr(m, name)
    raise KeyError(name)


def write_case_file(ctx, fc, gz=False, data=None):
    fmt = FORMATS[fc["fmt"]]
    data = fc["data"] if data is None else data
    name = "case" + fmt.suffix + (".gz" if gz else "")
    # half of the generated files replace an earlier file under the same path (anything remembered per path must not outlive the file)
    path = ctx.reuse_path(name) if (len(data) + sum(data[:16])) % 2 else ctx.path(name)
    if gz:
        with _gzip.open(path, "wb") as f:
            f.write(data)
    else:
        with open(path, "wb") as f:
            f.write(data)
    return path


def open_case(path, fc, lazy=None, buffer=None):
    import bionumpy as bnp
    fmt = FORMATS[fc["fmt"]]
    bt = get_buffer_type(buffer or fmt.buffer)
    return bnp.open(path, buffer_type=bt, lazy=lazy)


def column(table, name):
    return norm_column(getattr(table, name))


def norm_column(v):
    """Plain-Python view of a column: list of str / int / float / list / dict."""
    tname = type(v).__name__
    if hasattr(v, "__dataclass_fields__") or (hasattr(v, "tolist") and tname.endswith("Dataclass")):
        names = [f.name for f in dataclasses.fields(v)]
        cols = {n: norm_column(getattr(v, n)) for n in names}
        n = len(v)
        return [{k: cols[k][i] for k in names} for i in range(n)]
    if tname == "EncodedArray":
        if v.ndim == 1:
            return list(v.to_string())
        from .util import text_rows
        return text_rows(v)
    p = to_py(v)
    return p


def table_columns(table, fields=None):
    fields = fields or [f.name for f in dataclasses.fields(table)]
    return {f: column(table, f) for f in fields}


class UnequalColumns(Exception):
    """a table whose columns do not all have len(table) values: a fault of the table under observation, not of the harness"""
    library_fault = True


def rows_of(table, fields=None):
    """list of tuples (one per entry), columns normalised; touching every field."""
    cols = table_columns(table, fields)
    names = list(cols)
    n = len(table)
    for k in names:
        if len(cols[k]) != n:
            raise UnequalColumns("column %s has %d values, table has %d entries" % (k, len(cols[k]), n))
    return [tuple(_hashable(cols[k][i]) for k in names) for i in range(n)]


def _hashable(x):
    if isinstance(x, list):
        return tuple(_hashable(e) for e in x)
    if isinstance(x, dict):
        return tuple((k, _hashable(v)) for k, v in x.items())
    if isinstance(x, float) and math.isnan(x):
        return "nan"
    return x


def values_equal(got, exp, float_ulp=4):
    if isinstance(exp, float) or isinstance(got, float):
        try:
            return float_close(float(got), float(exp), float_ulp)
        except Exception:
            return False
    if isinstance(exp, (list, tuple)):
        if not isinstance(got, (list, tuple)) or len(got) != len(exp):
            return False
        return all(values_equal(g, e, float_ulp) for g, e in zip(got, exp))
    if isinstance(exp, dict):
        return isinstance(got, dict) and set(got) == set(exp) and all(values_equal(got[k], exp[k], float_ulp) for k in exp)
    if isinstance(exp, bool) or isinstance(got, bool):
        return bool(got) == bool(exp)
    return got == exp


def expected_columns(fc):
    """Expected plain columns for a file case, following the format's documented meaning (C02 oracle)."""
    fmt = FORMATS[fc["fmt"]]
    recs = fc["records"]
    cols = {}
    for f in fmt.fields:
        cols[f] = [r["values"][f] for r in recs]
    if "quality" in cols and fmt.name == "fastq":
        pass
    if fmt.name.startswith("vcf"):
        if fmt.with_info_header:
            from .models.formats import info_defs
            VCF_INFO_DEFS = info_defs(fc.get("style"))
            out = []
            for r in recs:
                info = r["values"]["info"]
                d = {}
                for k, num, typ in VCF_INFO_DEFS:
                    is_list = num not in ("0", "1")
                    if typ == "Flag":
                        d[k] = bool(info.get(k, False))
                    elif typ == "Integer":
                        d[k] = (list(info.get(k, [])) if is_list else info.get(k, 0))
                    elif typ == "Float":
                        d[k] = (list(info.get(k, [])) if is_list else info.get(k, float("nan")))
                    else:
                        d[k] = info.get(k, "")
                out.append(d)
            cols["info"] = out
        else:
            cols["info"] = [r["values"]["info_text"] for r in recs]
    return cols


def compare_columns(got_cols, exp_cols):
    """-> list of (field, row, got, expected) mismatches (at most a few per field)."""
    bad = []
    for f, exp in exp_cols.items():
        got = got_cols.get(f)
        if got is None:
            bad.append((f, -1, None, "column missing"))
            continue
        if isinstance(got, str):
            got = list(got)
        if len(got) != len(exp):
            bad.append((f, -1, "len=%d" % len(got), "len=%d" % len(exp)))
            continue
        k = 0
        for i, (g, e) in enumerate(zip(got, exp)):
            if not values_equal(g, e):
                bad.append((f, i, g, e))
                k += 1
                if k >= 3:
                    break
    return bad


def norm_entry_value(v):
    """Plain value of one field of a single entry (table[i] or an element of iteration)."""
    tname = type(v).__name__
    if hasattr(v, "__dataclass_fields__"):
        return [(f, norm_entry_value(getattr(v, f))) for f in v.__dataclass_fields__]
    if tname == "EncodedArray":
        return v.to_string()
    if tname == "StringArray":
        x = v.tolist()
        return x if isinstance(x, str) else str(x)
    if isinstance(v, np.ndarray):
        if v.ndim == 0:
            return v.item() if v.dtype.kind != "S" else v.item().decode()
        return v.tolist()
    if isinstance(v, (np.generic,)):
        x = v.item()
        return x.decode() if isinstance(x, bytes) else x
    if isinstance(v, bytes):
        return v.decode()
    if hasattr(v, "tolist"):
        return v.tolist()
    return v


def norm_scalar(v):
    return norm_entry_value(v)
