"""C18 — numbers survive conversion between text and arrays.

Monitors: R6 postconditions attached to the *live* converters (ints_to_strings, str_to_int, str_to_float,
int_lists_to_strings) in every importing module, so that calls made while files are parsed/written are judged too;
batch-independence monitor (row result == result of converting the row alone / in a permuted / sub-batch).
"""
import math
import random

import numpy as np

RULE = ("targeted values (0, +-(10^e + {-2..2}) e<=18, int64 extremes, random widths 1..19, signs, leading zeros; float "
        "texts with 1..17 significant digits, fraction, exponent -300..300) in mixed-width batches; every call of the live "
        "converters is judged by str()/int()/float()/ulp distance; distinct = distinct (function, text/value) pairs; "
        "non-trivial = value has >= 2 characters or batch has >= 2 rows of different widths")
ASSUMPTIONS = ["Python's str(int), int(str), float(str), repr(float) are the reference (R6)",
               "floats: |parsed - float(text)| <= 4 ulp is 'a few units in the last place'"]
EXHAUSTIVE_CORE = "all 10^e+d for e in 0..18, d in -2..2, both signs, int64 extremes (ints_to_strings and str_to_int)"

I64MAX = 2 ** 63 - 1
I64MIN = -2 ** 63


def preload():
    import bionumpy  # noqa
    import bionumpy.io.strops  # noqa
    import bionumpy.io.matrix_dump  # noqa


def ulps(a, b):
    if a == b:
        return 0
    if math.isnan(a) or math.isnan(b) or math.isinf(a) or math.isinf(b):
        return 10 ** 9
    ia = np.array([a, b], dtype=np.float64).view(np.int64)
    ia = np.where(ia < 0, np.int64(-2 ** 63) - ia, ia)
    return abs(int(ia[0]) - int(ia[1]))


def hot_ints():
    vals = {0, I64MAX, I64MIN, I64MAX - 1, I64MIN + 1}
    for e in range(0, 19):
        for d in (-2, -1, 0, 1, 2):
            for s in (1, -1):
                v = s * (10 ** e + d)
                if I64MIN <= v <= I64MAX:
                    vals.add(v)
    return sorted(vals)


def rand_int(rng):
    w = rng.randint(1, 19)
    lo = 10 ** (w - 1) if w > 1 else 0
    hi = min(10 ** w - 1, I64MAX)
    v = rng.randint(lo, hi)
    return -v if rng.random() < 0.4 else v


def rand_float_text(rng):
    nd = rng.randint(1, 17)
    digits = str(rng.randint(1, 9)) + "".join(rng.choice("0123456789") for _ in range(nd - 1))
    style = rng.random()
    sign = rng.choice(["", "", "-"])
    if style < 0.35:       # plain decimal with fraction
        cut = rng.randint(0, nd)
        a, b = digits[:cut] or "0", digits[cut:]
        t = a + ("." + b if b else (".0" if rng.random() < 0.5 else ""))
        if rng.random() < 0.2:
            t = "0." + "0" * rng.randint(0, 5) + digits
        elif rng.random() < 0.15:
            t = "." + digits            # no digit before the decimal point
        elif rng.random() < 0.1:
            t = digits + "."            # none after it
    elif style < 0.5:      # integer-looking, sometimes with zeros appended: whole numbers up to and beyond the 64-bit integer range
        t = digits + ("0" * rng.randint(1, 22 - nd) if rng.random() < 0.3 else "")
    else:                  # scientific, lower-case e
        cut = rng.randint(1, nd)
        mant = digits[:cut] + ("." + digits[cut:] if digits[cut:] else "")
        if rng.random() < 0.1:
            mant = "." + digits
        ex = rng.randint(-300, 300 - nd)
        t = mant + "e" + (rng.choice(["", "+"]) if ex >= 0 else "") + str(ex)
        if rng.random() < 0.3:
            t = mant + "e" + ("-%02d" % -ex if ex < 0 else "+%02d" % ex)
    return sign + t


class Monitors:
    """Postconditions on the live converters (M: runtime contracts)."""

    def __init__(self, ctx):
        self.ctx = ctx
        self.sites = {}

    def install(self):
        from bionumpy.io import strops
        from bnpmon.install import monitor_function
        for name, post in (("ints_to_strings", self.post_ints_to_strings),
                           ("str_to_int", self.post_str_to_int),
                           ("str_to_float", self.post_str_to_float),
                           ("int_lists_to_strings", self.post_int_lists)):
            _, n = monitor_function(strops, name, post=post)
            self.sites[name] = n
            self.ctx.count("contract_sites:" + name, n)

    # each postcondition: observer; never raises into the library
    def post_ints_to_strings(self, result, args, kwargs, state):
        ctx = self.ctx
        try:
            number = np.asanyarray(args[0] if args else kwargs["number"])
            if number.ndim != 1 or number.dtype.kind not in "iu":
                return
            got = result.tolist()
            exp = [str(int(v)) for v in number.tolist()]
        except Exception as e:  # result not decodable -> judged as wrong
            ctx.count("contract_eval:ints_to_strings")
            ctx.violation("ints_to_strings/undecodable-result", "result of ints_to_strings cannot be decoded: %r" % e,
                          {"numbers": np.asanyarray(args[0]).tolist()[:20]})
            return
        ctx.count("contract_eval:ints_to_strings")
        if got != exp:
            bad = [(v, g, e) for v, g, e in zip(number.tolist(), got, exp) if g != e] or [("len", len(got), len(exp))]
            for v, g, e in bad[:5]:
                ctx.violation("ints_to_strings/" + classify_int_text(v, g, e), "ints_to_strings(%r) gave %r, expected %r" % (v, g, e),
                              {"value": v, "got": g, "expected": e, "batch": number.tolist()[:30]})
        for v in number.tolist()[:64]:
            ctx.judged("ints_to_strings", v if abs(v) >= 10 else None)

    def post_str_to_int(self, result, args, kwargs, state):
        ctx = self.ctx
        try:
            text = args[0]
            if not hasattr(text, "tolist") and not isinstance(text, (str, list)):
                return
            from bnpmon.util import text_rows
            rows = text_rows(text)
            exp = []
            for r in rows:
                r2 = r.replace("\x00", "")
                exp.append(int(r2))
            got = np.asanyarray(result).tolist()
            if not isinstance(got, list):
                got = [got]
        except Exception:
            return  # input not integer text (library will/should raise elsewhere): not this contract's business
        ctx.count("contract_eval:str_to_int")
        in_range = [I64MIN <= e <= I64MAX for e in exp]
        for r, g, e, ok in list(zip(rows, got, exp, in_range))[:200]:
            if not ok:
                continue
            ctx.judged("str_to_int", r if len(r) >= 2 else None)
            if g != e:
                ctx.violation("str_to_int/wrong-value:" + classify_int_parse(r), "str_to_int(%r) gave %r, expected %r" % (r, g, e),
                              {"text": r, "got": g, "expected": e, "batch": rows[:30]})
        if len(got) != len(exp):
            ctx.violation("str_to_int/length", "str_to_int returned %d values for %d rows" % (len(got), len(exp)), {"batch": rows[:30]})

    def post_str_to_float(self, result, args, kwargs, state):
        ctx = self.ctx
        try:
            from bnpmon.util import text_rows
            rows = text_rows(args[0])
            exp = [float(r) for r in rows]
            got = np.asanyarray(result).tolist()
        except Exception:
            return
        ctx.count("contract_eval:str_to_float")
        if len(got) != len(exp):
            ctx.violation("str_to_float/length", "str_to_float returned %d values for %d rows" % (len(got), len(exp)), {"batch": rows[:30]})
            return
        for r, g, e in list(zip(rows, got, exp))[:200]:
            if math.isinf(e) or math.isnan(e):
                continue
            ctx.judged("str_to_float", r if len(r) >= 2 else None)
            d = ulps(g, e)
            self.ctx.meta["max_parse_ulp"] = max(self.ctx.meta.get("max_parse_ulp", 0), min(d, 10 ** 6))
            if d > 4:
                ctx.violation("str_to_float/off-by-more-than-4ulp:" + classify_float_text(r), "str_to_float(%r) gave %r, expected %r (%d ulp)" % (r, g, e, d),
                              {"text": r, "got": g, "expected": e, "ulp": d, "batch": rows[:30]})

    def post_int_lists(self, result, args, kwargs, state):
        ctx = self.ctx
        try:
            lists = args[0].tolist()
            sep = kwargs.get("sep", args[1] if len(args) > 1 else ",")
            keep_last = kwargs.get("keep_last", args[2] if len(args) > 2 else False)
            if sep == "":
                return
            exp = [sep.join(str(int(v)) for v in row) + (sep if keep_last and len(row) else "") for row in lists]
            got = result.tolist()
        except Exception:
            return
        ctx.count("contract_eval:int_lists_to_strings")
        for row, g, e in list(zip(lists, got, exp))[:100]:
            ctx.judged("int_lists_to_strings", tuple(row) if len(row) >= 2 else None)
            if g != e and len(row) > 0:
                ctx.violation("int_lists_to_strings/wrong-text", "int_lists_to_strings(%r) gave %r expected %r" % (row, g, e),
                              {"row": row, "got": g, "expected": e, "batch": lists[:10]})


def classify_int_text(v, got, exp):
    if isinstance(got, str) and isinstance(exp, str):
        if got == "0" + exp or (exp.startswith("-") and got == "-0" + exp[1:]):
            return "leading-zero@10^k-1(k>=15)" if str(abs(v)).strip("9") == "" and len(str(abs(v))) >= 15 else "leading-zero"
        if v == I64MIN:
            return "int64-min"
        if len(got) != len(exp):
            return "wrong-width"
        return "wrong-digits"
    return "wrong-shape"


def classify_int_parse(text):
    k = []
    if text[:1] == "-":
        k.append("neg")
    elif text[:1] == "+":
        k.append("plus")
    body = text.lstrip("+-")
    if len(body) > 1 and body[0] == "0":
        k.append("leading-zeros")
    if len(body) >= 19:
        k.append("w>=19")
    return "+".join(k) or "plain"


def classify_float_text(text):
    k = []
    if "e" in text:
        k.append("sci")
    if "." in text:
        k.append("frac")
    if text[:1] == "-":
        k.append("neg")
    return "+".join(k) or "plain"


def run(ctx):
    import bionumpy as bnp
    from bionumpy.io import strops
    from npstructures import RaggedArray
    from bnpmon.ctx import originates_in_library
    mon = Monitors(ctx)
    mon.install()
    rng = ctx.rng
    n_batches = ctx.share(ctx.pick(1600, 60000))
    hot = hot_ints()

    def call(fn, case):
        ctx.run_case(fn, case)

    # ---- A. ints_to_strings --------------------------------------------------------------------
    def case_ints(vals):
        arr = np.array(vals, dtype=np.int64)
        res = strops.ints_to_strings(arr)         # judged by the live postcondition
        ctx.count("driver_calls:ints_to_strings")
        # batch independence: each row alone, a permutation, a sub-batch
        got = res.tolist()
        if len(vals) > 1:
            perm = list(range(len(vals)))
            rng.shuffle(perm)
            got_p = strops.ints_to_strings(arr[perm]).tolist()
            ctx.check("batch-independence", [got[i] for i in perm] == got_p, "batch-dependence/ints_to_strings:permutation",
                      "ints_to_strings result depends on row order", {"batch": vals, "perm": perm, "got": got, "got_permuted": got_p}, tuple(vals))
            i = rng.randrange(len(vals))
            alone = strops.ints_to_strings(arr[i:i + 1]).tolist()[0]
            ctx.check("batch-independence", alone == got[i], "batch-dependence/ints_to_strings:alone",
                      "ints_to_strings row result differs when converted alone", {"batch": vals, "row": i, "in_batch": got[i], "alone": alone}, (tuple(vals), i))

    if ctx.shard == 0:
        call(case_ints, hot)
        for v in hot:
            call(case_ints, [v])
        ctx.sample({"ints_to_strings_batch": hot[:12]})
    for _ in range(n_batches):
        k = rng.choice([1, 2, 3, 5, 8, 20])
        vals = [rng.choice(hot) if rng.random() < 0.35 else rand_int(rng) for _ in range(k)]
        call(case_ints, vals)
    ctx.sample({"ints_to_strings_batch": vals})
    # ---- B. str_to_int ------------------------------------------------------------------------
    def int_text(v):
        t = str(abs(v))
        r = rng.random()
        if r < 0.25 and len(t) < 19:
            t = "0" * rng.randint(1, 19 - len(t)) + t
        if v < 0:
            return "-" + t
        return ("+" + t) if rng.random() < 0.2 else t

    def case_parse_ints(texts):
        arr = bnp.as_encoded_array(texts)
        res = strops.str_to_int(arr)
        ctx.count("driver_calls:str_to_int")
        got = np.asarray(res).tolist()
        if len(texts) > 1:
            i = rng.randrange(len(texts))
            alone = np.asarray(strops.str_to_int(bnp.as_encoded_array([texts[i]]))).tolist()[0]
            ctx.check("batch-independence", alone == got[i], "batch-dependence/str_to_int:alone",
                      "str_to_int row result differs when parsed alone", {"batch": texts, "row": i, "in_batch": got[i], "alone": alone}, (tuple(texts), i))
            perm = list(range(len(texts)))
            rng.shuffle(perm)
            got_p = np.asarray(strops.str_to_int(bnp.as_encoded_array([texts[j] for j in perm]))).tolist()
            ctx.check("batch-independence", [got[j] for j in perm] == got_p, "batch-dependence/str_to_int:permutation",
                      "str_to_int result depends on row order", {"batch": texts, "perm": perm}, tuple(texts))

    if ctx.shard == 0:
        call(case_parse_ints, [str(v) for v in hot])
        for v in hot:
            call(case_parse_ints, [str(v)])
    for _ in range(n_batches):
        k = rng.choice([1, 2, 3, 5, 8, 20])
        texts = [int_text(rng.choice(hot) if rng.random() < 0.35 else rand_int(rng)) for _ in range(k)]
        call(case_parse_ints, texts)
    ctx.sample({"str_to_int_batch": texts})

    # batches whose size (and total text length) is at or next to a block size: the conversions are element-wise at any batch size
    from bnpmon.util import boundary_length
    for _ in range(ctx.share(ctx.pick(16, 200))):
        k = boundary_length(rng, 1 << 14)
        small = rng.random() < 0.5
        vals = [(rng.randint(0, 9) if small else (rng.choice(hot) if rng.random() < 0.1 else rand_int(rng))) for _ in range(k)]
        if vals:
            call(case_ints, vals)
            call(case_parse_ints, [str(v) for v in vals])
            ctx.count("batches_of_block_size")

    # ---- C. str_to_float ----------------------------------------------------------------------
    def case_parse_floats(texts):
        arr = bnp.as_encoded_array(texts)
        res = np.asarray(strops.str_to_float(arr)).tolist()
        ctx.count("driver_calls:str_to_float")
        if len(texts) > 1:
            i = rng.randrange(len(texts))
            alone = np.asarray(strops.str_to_float(bnp.as_encoded_array([texts[i]]))).tolist()[0]
            ctx.check("batch-independence", alone == res[i], "batch-dependence/str_to_float:alone",
                      "str_to_float row result differs when parsed alone", {"batch": texts, "row": i, "in_batch": res[i], "alone": alone}, (tuple(texts), i))
            sub = sorted(rng.sample(range(len(texts)), max(1, len(texts) // 2)))
            res_s = np.asarray(strops.str_to_float(bnp.as_encoded_array([texts[j] for j in sub]))).tolist()
            ctx.check("batch-independence", [res[j] for j in sub] == res_s, "batch-dependence/str_to_float:sub-batch",
                      "str_to_float result differs in a sub-batch", {"batch": texts, "sub": sub, "full": [res[j] for j in sub], "sub_result": res_s}, (tuple(texts), tuple(sub)))

    fixed_floats = ["0.0", "1.0", "-1.0", "0.5", "1e3", "1e-05", "1.5e+10", "2.5e-3", "123456789.123456789", "1e300", "1e-300", "-0.001", "3", "10", "-7",
                    "0.1", "0.2", "0.3", "1.7976931348623157e308", "2.2250738585072014e-308", "9007199254740993", "0.000001", "100000.0"]
    if ctx.shard == 0:
        call(case_parse_floats, fixed_floats)
    for _ in range(n_batches):
        k = rng.choice([1, 2, 3, 5, 8])
        texts = [rand_float_text(rng) for _ in range(k)]
        call(case_parse_floats, texts)
    ctx.sample({"str_to_float_batch": texts})

    # ---- D. format -> parse round trip of doubles ---------------------------------------------
    def case_roundtrip(xs):
        arr = np.array(xs, dtype=np.float64)
        txt = strops.float_to_strings(arr)
        t_list = txt.tolist()
        ctx.count("driver_calls:float_to_strings")
        for x, t in zip(xs, t_list):
            ctx.check("float-format", float(t) == x and math.copysign(1.0, float(t)) == math.copysign(1.0, x), "float_to_strings/text-does-not-denote-value", "float_to_strings(%r) gave %r" % (x, t),
                      {"value": x, "text": t}, x)
        back = np.asarray(strops.str_to_float(txt)).tolist()
        for x, t, b in zip(xs, t_list, back):
            d = ulps(x, b)
            if d == 0:
                ctx.judged("float-roundtrip", x)
            elif d <= 4:
                ctx.judged("float-roundtrip", x)
                ctx.violation("float-roundtrip/parse-not-correctly-rounded(<=4ulp)", "parse(format(x)) != x by <= 4 ulp (e.g. %r -> %r -> %r)" % (x, t, b),
                              {"value": x, "text": t, "parsed": b, "ulp": d})
            else:
                ctx.judged("float-roundtrip", x)
                ctx.violation("float-roundtrip/off-by-more-than-4ulp", "parse(format(%r)) = %r via %r (%d ulp)" % (x, b, t, d),
                              {"value": x, "text": t, "parsed": b, "ulp": d})

    for _ in range(ctx.share(ctx.pick(300, 20000))):
        xs = []
        for _ in range(rng.choice([1, 3, 6])):
            r = rng.random()
            if r < 0.3:
                xs.append(round(rng.uniform(-1000, 1000), rng.randint(0, 6)))
            elif r < 0.6:
                xs.append(float(rng.randint(-10 ** 6, 10 ** 6)))
            elif r < 0.8:
                xs.append(rng.uniform(-1, 1) * 10.0 ** rng.randint(-200, 200))
            else:
                xs.append(float("%de%d" % (rng.randint(1, 99), rng.randint(-30, 30))))
        if rng.random() < 0.25:
            # values that are equal as numbers but not as doubles (the two zeros), and the same value several times in one batch
            xs += [rng.choice([0.0, -0.0]), rng.choice([0.0, -0.0, xs[0]]), -xs[0]]
            rng.shuffle(xs)
        call(case_roundtrip, xs)
        if rng.random() < 0.15:
            # batches of whole numbers of every magnitude up to and beyond the int64 / uint64 ranges, and negative zero
            big = [2.0 ** 53, 2.0 ** 62, 2.0 ** 63, -2.0 ** 63, 1e19, -1.5e19, 2.0 ** 64, 1.8e19, 1e20, 1e22, -0.0, 0.0, 4.0, 1e15, 123456789012345680.0]
            call(case_roundtrip, [rng.choice(big) for _ in range(rng.choice([1, 2, 4]))])
    ctx.sample({"float_roundtrip_batch": xs})

    # ---- E. lists of ints: join and split -----------------------------------------------------
    def case_lists(lists):
        ra = RaggedArray([np.array(r, dtype=np.int64) for r in lists])
        txt = strops.int_lists_to_strings(ra)     # judged by postcondition
        ctx.count("driver_calls:int_lists_to_strings")
        exp = [",".join(str(v) for v in r) for r in lists]
        # the same for row selections handed over as they come out of the indexing step (lazy views, nothing flattened them yet)
        n = len(lists)
        perm = list(range(n)); rng.shuffle(perm)
        mask = [rng.random() < 0.6 for _ in range(n)]
        for kind, idx, mk in (("reversed", list(range(n))[::-1], lambda: ra[::-1]), ("permuted", perm, lambda: ra[np.array(perm)]), ("masked", [i for i in range(n) if mask[i]], lambda: ra[np.array(mask)]),
                              ("tail", list(range(n))[n // 2:], lambda: ra[n // 2:])):
            if not idx:
                continue
            try:
                got = strops.int_lists_to_strings(mk()).tolist()
            except Exception as e:
                if not originates_in_library(e):
                    raise
                ctx.violation("int_lists_to_strings/raised-on-row-selection:%s" % type(e).__name__, "int_lists_to_strings(%s selection) raised %s" % (kind, str(e)[:80]), {"lists": lists[:10], "selection": kind})
                continue
            want = [exp[i] for i in idx]
            ctx.check("int_lists_to_strings:selection", got == want, "int_lists_to_strings/wrong-text:row-selection", "int_lists_to_strings of a %s selection gave %r expected %r" % (kind, got[:5], want[:5]),
                      {"lists": lists[:10], "selection": kind, "got": got[:10], "expected": want[:10]}, (kind, repr(lists)) if sum(map(len, lists)) > 1 else None)
        flat = ",".join(exp)
        if all(len(r) > 0 for r in lists):
            parts = strops.split(bnp.as_encoded_array(flat), sep=",").tolist()
            ctx.check("split", parts == flat.split(","), "split/wrong-parts", "split(%r) gave %r" % (flat[:80], parts[:10]), {"text": flat, "got": parts}, flat)
            vals = np.asarray(strops.str_to_int(strops.split(bnp.as_encoded_array(flat), sep=","))).tolist()
            ctx.check("split+parse", vals == [v for r in lists for v in r], "split/parse-element-by-element", "split+str_to_int differs",
                      {"text": flat, "got": vals}, flat)

    for _ in range(ctx.share(ctx.pick(300, 12000))):
        lists = [[(rng.choice(hot) if rng.random() < 0.2 else rng.randint(0, 10 ** rng.randint(1, 9))) for _ in range(rng.choice([1, 1, 2, 3, 5]))]
                 for _ in range(rng.choice([1, 2, 4]))]
        lists = [[abs(v) if v != I64MIN else 0 for v in r] for r in lists] if rng.random() < 0.7 else lists
        call(case_lists, lists)
    ctx.sample({"int_lists": lists})

    # ---- F. the same values through files (parse + write paths call the live converters) -------
    from bionumpy.datatypes import Interval, BedGraph

    def case_bed(rows):
        path = ctx.path("c18.bed")
        text = "".join("%s\t%s\t%s\n" % r for r in rows)
        with open(path, "w") as f:
            f.write(text)
        for lazy in (True, False):
            data = bnp.open(path, lazy=lazy).read()
            starts = np.asarray(data.start).tolist()
            stops = np.asarray(data.stop).tolist()
            exp_s = [int(r[1]) for r in rows]
            exp_e = [int(r[2]) for r in rows]
            ctx.check("file-int-column", starts == exp_s and stops == exp_e, "file/int-column-parse:lazy=%s" % lazy, "BED integer columns parsed wrongly",
                      {"text": text, "starts": starts, "stops": stops}, text)
        out = ctx.path("c18out.bed")
        tbl = Interval(["c"] * len(rows), np.array([int(r[1]) for r in rows], dtype=np.int64), np.array([int(r[2]) for r in rows], dtype=np.int64))
        with bnp.open(out, "w") as f:
            f.write(tbl)
        got = open(out).read()
        exp = "".join("c\t%d\t%d\n" % (int(r[1]), int(r[2])) for r in rows)
        ctx.check("file-int-column", got == exp, "file/int-column-write", "BED integer columns written wrongly", {"got": got, "expected": exp}, exp)

    def case_bed_filtered_chunks(rows):
        # integer columns of rows that come from several chunks of a file, each chunk filtered before the chunks are joined: the value of a row does not depend on which other rows were kept
        path = ctx.path("c18c.bed")
        with open(path, "w") as f:
            f.write("".join("c\t%s\t%s\n" % (r[1], r[2]) for r in rows))
        k = max(len("c\t%s\t%s\n" % (r[1], r[2])) for r in rows) + 1
        chunks = list(bnp.open(path).read_chunks(min_chunk_size=k * rng.choice([1, 2, 3])))
        if len(chunks) < 2:
            return
        keep, b0 = [], 0
        parts = []
        for ci, c_ in enumerate(chunks):
            mk_ = [True] * len(c_)
            if len(c_) >= 2 and rng.random() < 0.7:
                mk_[rng.choice([len(c_) - 1, len(c_) - 1, 0, rng.randrange(len(c_))])] = False
            keep += [b0 + i for i, q in enumerate(mk_) if q]
            b0 += len(c_)
            parts.append(c_[np.array(mk_, dtype=bool)])
        joined = np.concatenate(parts)
        got = list(zip(np.asarray(joined.start).tolist(), np.asarray(joined.stop).tolist()))
        exp = [(int(rows[i][1]), int(rows[i][2])) for i in keep]
        ctx.check("file-int-column", got == exp, "file/int-column-parse:filtered-chunks-joined", "integer columns of filtered chunks joined: %r, the kept rows hold %r" % (got[:4], exp[:4]), {"rows": [list(r) for r in rows], "kept": keep, "got": got, "expected": exp}, (tuple(rows), tuple(keep)))
        ctx.count("filtered_chunks_joined")

    def case_bdg(rows):
        path = ctx.path("c18.bdg")
        text = "".join("c\t%d\t%d\t%s\n" % r for r in rows)
        with open(path, "w") as f:
            f.write(text)
        for lazy in (True, False):
            data = bnp.open(path, lazy=lazy).read()
            vals = np.asarray(data.value).tolist()
            exp = [float(r[2]) for r in rows]
            ok = len(vals) == len(exp) and all(ulps(a, b) <= 4 for a, b in zip(vals, exp))
            ctx.check("file-float-column", ok, "file/float-column-parse:lazy=%s" % lazy, "bedGraph float column parsed wrongly",
                      {"text": text, "values": vals, "expected": exp}, text)

    for _ in range(ctx.share(ctx.pick(120, 4000))):
        n = rng.choice([1, 2, 3, 6])
        rows = []
        for _ in range(n):
            a = abs(rng.choice(hot)) if rng.random() < 0.3 else abs(rand_int(rng))
            b = abs(rng.choice(hot)) if rng.random() < 0.3 else abs(rand_int(rng))
            a, b = (a if a != 2 ** 63 else 0), (b if b != 2 ** 63 else 0)
            rows.append(("c", str(a), str(b)))
        if rng.random() < 0.3:
            # explicit '+' signs and leading zeros (valid spellings), with or without a negative-free column
            rows = [(c_, ("+" + a_ if rng.random() < 0.5 else a_), ("0" * rng.randint(0, 2) + b_)) for c_, a_, b_ in rows]
        call(case_bed, rows)
        if rng.random() < 0.5:
            # equal-width lines (19-digit coordinates) and mixed widths
            wide = rng.random() < 0.5
            rows_c = [("c", str(10 ** 18 + rng.randint(0, 10 ** 6)) if wide else str(abs(rand_int(rng)) % 10 ** rng.randint(1, 12)), str(9 * 10 ** 18 - rng.randint(0, 10 ** 6)) if wide else str(abs(rand_int(rng)) % 10 ** rng.randint(1, 12))) for _ in range(rng.randint(4, 12))]
            call(case_bed_filtered_chunks, rows_c)
        rows = [(rng.randint(0, 10 ** 6), rng.randint(0, 10 ** 6), rand_float_text(rng)) for _ in range(n)]
        if rng.random() < 0.3:
            # a column in which every line is a whole number without fraction or exponent (counts), of any magnitude
            rows = [(a_, b_, rng.choice(["", "", "-"]) + str(rng.randint(1, 9)) + "".join(rng.choice("0123456789") for _ in range(rng.choice([0, 1, 5, 16]))) + "0" * rng.choice([0, 0, 2, 3, 5])) for a_, b_, _ in rows]
        call(case_bdg, rows)

    # ---- F1b. a float column written to a file: every text denotes the double of its row (sign of zero included), whatever the other rows hold ---------
    def case_bdg_write(vals):
        from bionumpy.datatypes import BedGraph
        n_ = len(vals)
        t_ = BedGraph(["c"] * n_, np.arange(n_), np.arange(n_) + 1, np.array(vals, dtype=float))
        out = ctx.path("c18w.bdg")
        with bnp.open(out, "w") as f:
            f.write(t_)
        texts = [l.split("\t")[3] for l in open(out).read().split("\n") if l]
        ok = len(texts) == n_ and all(float(tx) == v and math.copysign(1.0, float(tx)) == math.copysign(1.0, v) for tx, v in zip(texts, vals))
        ctx.check("file-float-column", ok, "file/float-column-write", "bedGraph float column written as %r for the doubles %r" % (texts[:6], vals[:6]), {"values": vals, "texts": texts}, tuple(vals))
        ctx.count("float_columns_written")

    for _ in range(ctx.share(ctx.pick(160, 4000))):
        vals = [rng.choice([0.0, -0.0, 0.5, 1.5, -2.25, 1e-5, 3.0, 1e22, rng.uniform(-10, 10), float(rng.randint(-5, 5))]) for _ in range(rng.choice([1, 2, 3, 6]))]
        if rng.random() < 0.4:
            vals += [vals[0], -vals[0], 0.0, -0.0]
            rng.shuffle(vals)
        call(case_bdg_write, vals)

    # ---- F1c. a batch with one malformed row: a refusal, or the values of the other rows are their own (element-wise clause) -------------------------
    def case_one_malformed_row(c):
        kind, texts, bad_at = c
        arr = bnp.as_encoded_array(texts)
        fn = strops.str_to_int if kind == "int" else strops.str_to_float
        try:
            got = np.asarray(fn(arr)).tolist()
        except Exception as e:
            from bnpmon.ctx import originates_in_library
            if not originates_in_library(e):
                raise
            ctx.judged("batch-independence", (kind, tuple(texts)))
            ctx.count("malformed_row_refused")
            return
        alone = [np.asarray(fn(bnp.as_encoded_array([t]))).tolist()[0] if i != bad_at else None for i, t in enumerate(texts)]
        ok = all(a is None or (g == a or (kind == "float" and ulps(g, a) == 0)) for g, a in zip(got, alone))
        ctx.check("batch-independence", ok, "batch-dependence/%s:values-of-well-formed-rows-changed-by-a-malformed-row" % ("str_to_int" if kind == "int" else "str_to_float"),
                  "%s(%r) returned %r; alone the well-formed rows give %r" % (fn.__name__, texts, got, alone), {"texts": texts, "malformed_row": bad_at, "got": [str(g) for g in got], "alone": [str(a) for a in alone]}, (kind, tuple(texts)))
        ctx.count("malformed_row_accepted")

    for _ in range(ctx.share(ctx.pick(400, 8000))):
        kind = rng.choice(["int", "float"])
        k = rng.choice([1, 2, 3, 5])
        good = [str(rand_int(rng) % 10 ** rng.randint(1, 9)) for _ in range(k)] if kind == "int" else [rng.choice(["1.5", "-0.25", "3", "100.125", "2e3", rand_float_text(rng)]) for _ in range(k)]
        bad = rng.choice(["-", "+", "--5", "1-2"]) if kind == "int" else rng.choice(["1.2.3", ".", "-", "..", "1e", "e5", "1.5.", "+"])
        at = rng.choice([0, 0, len(good), rng.randint(0, len(good))])
        texts = good[:at] + [bad] + good[at:]
        call(case_one_malformed_row, (kind, texts, at))

    # ---- F1d. numbers in typed VCF INFO keys: under row selections of the INFO table, after a file that declared the same ids with other types, and positions written twice --------
    def case_vcf_numbers(seed_):
        from bionumpy.datatypes import VCFEntry
        r_ = random.Random(seed_)
        n_ = r_.randint(3, 7)
        dp = [r_.choice([0, 7, 10 ** 9, 2 ** 53 + 1, 9007199254740993, 2 ** 62 + 1, r_.randint(0, 10 ** 12)]) for _ in range(n_)]
        af = [r_.choice([0.5, 0.001, 0.125, 1e-5, 0.25]) for _ in range(n_)]
        def vcf_text(dp_type, dp_vals):
            hdr = "##fileformat=VCFv4.2\n##INFO=<ID=DP,Number=1,Type=%s,Description=\"d\">\n##INFO=<ID=AF,Number=1,Type=Float,Description=\"a\">\n#CHROM\tPOS\tID\tREF\tALT\tQUAL\tFILTER\tINFO\n" % dp_type
            return hdr + "".join("chr1\t%d\t.\tA\tC\t.\tPASS\tDP=%s;AF=%r\n" % (10 + i, v, a) for i, (v, a) in enumerate(zip(dp_vals, af)))
        if r_.random() < 0.5:
            # earlier in the process: the same ids declared with another type
            p0 = ctx.path("n0.vcf")
            with open(p0, "w") as f:
                f.write(vcf_text("Float", [0.5 + i for i in range(n_)]))
            t0 = bnp.open(p0).read()
            np.asarray(t0.info.DP)
            ctx.count("vcf_same_ids_other_types_before")
        p1 = ctx.path("n1.vcf")
        with open(p1, "w") as f:
            f.write(vcf_text("Integer", dp))
        t = bnp.open(p1).read()
        info = t.info
        order = r_.sample(range(n_), n_) if r_.random() < 0.6 else list(range(n_))[::-1]
        sub = r_.sample(range(n_), 2)
        for what, idx in (("file-order", list(range(n_))), ("permuted", order), ("sub-selection", sub)):
            if what != "file-order" and r_.random() < 0.6:
                # a selection of rows taken before any number of the file was parsed
                fresh = bnp.open(p1).read()
                sel = fresh.info[np.array(idx)] if r_.random() < 0.5 else fresh[np.array(idx)].info
                what += ":before-first-parse"
            else:
                sel = info if what == "file-order" else info[np.array(idx)]
            got_dp = np.asarray(sel.DP).tolist()
            got_af = np.asarray(sel.AF).tolist()
            ctx.check("file-int-column", got_dp == [dp[i] for i in idx] and np.asarray(sel.DP).dtype.kind in "iu", "file/vcf-info-integer:%s" % what, "INFO DP of rows %r reads %r, the file says %r" % (idx, got_dp, [dp[i] for i in idx]), {"dp": dp, "rows": idx, "got": [str(x) for x in got_dp]}, (tuple(dp), tuple(idx), "dp"))
            ctx.check("file-float-column", len(got_af) == len(idx) and all(ulps(a_, af[i]) <= 4 for a_, i in zip(got_af, idx)), "file/vcf-info-float:%s" % what, "INFO AF of rows %r reads %r, the file says %r" % (idx, got_af, [af[i] for i in idx]), {"af": af, "rows": idx, "got": got_af}, (tuple(af), tuple(idx), "af"))
        # positions of a table built in memory, written twice: the same text both times, and the table keeps its numbers
        pos = [r_.choice([0, 9, 99, 10 ** 9, 2 ** 62, r_.randint(0, 10 ** 6)]) for _ in range(n_)]
        tv = VCFEntry(["c"] * n_, np.array(pos, dtype=np.int64), ["."] * n_, ["A"] * n_, ["C"] * n_, ["."] * n_, ["PASS"] * n_, ["."] * n_)
        outs = []
        for k_ in range(2):
            po = ctx.path("nw%d.vcf" % k_)
            with bnp.open(po, "w") as f:
                f.write(tv)
            outs.append([l.split("\t")[1] for l in open(po).read().split("\n") if l and not l.startswith("#")])
        ctx.check("file-int-column", outs[0] == [str(p_ + 1) for p_ in pos] and outs[1] == outs[0] and np.asarray(tv.position).tolist() == pos, "file/vcf-position-write:written-twice", "POS written %r then %r for positions %r (table afterwards %r)" % (outs[0][:4], outs[1][:4], pos[:4], np.asarray(tv.position).tolist()[:4]),
                  {"positions": pos, "first": outs[0], "second": outs[1]}, (tuple(pos), "w2"))
        ctx.count("vcf_number_cases")

    for i in range(ctx.share(ctx.pick(160, 3000))):
        call(case_vcf_numbers, ctx.seed * 977 + ctx.shard * 131 + i)

    # ---- F2. missing-value parsers: '.' and '' are missing, everything else is the number --------------------------------
    def case_missing(texts):
        import math
        arr = bnp.as_encoded_array(texts)
        got = np.asarray(strops.str_to_float_with_missing(arr)).tolist()
        exp = [float("nan") if t in (".", "") else float(t) for t in texts]
        ok = len(got) == len(exp) and all((math.isnan(e) and math.isnan(g)) or (not math.isnan(e) and not math.isnan(g) and ulps(g, e) <= 4) for g, e in zip(got, exp))
        ctx.check("with-missing", ok, "str_to_float_with_missing/value-or-missing", "str_to_float_with_missing(%r) gave %r" % (texts, got), {"texts": texts, "got": [str(g) for g in got]}, tuple(texts))
        its = [t for t in texts if "." not in t[1:] and "e" not in t and not t.startswith(".") or t in (".", "")]
        its = [t if t in (".", "") else t.split(".")[0] or "0" for t in its]
        its = [t for t in its if t in (".", "") or -2 ** 63 <= int(t) < 2 ** 63]          # the integer clause quantifies over int64 values
        if its:
            gi_ = np.asarray(strops.str_to_int_with_missing(bnp.as_encoded_array(its))).tolist()
            ei_ = [0 if t in (".", "") else int(t) for t in its]
            ctx.check("with-missing", gi_ == ei_, "str_to_int_with_missing/value-or-missing", "str_to_int_with_missing(%r) gave %r" % (its, gi_), {"texts": its, "got": gi_}, tuple(its))
    for _ in range(ctx.share(ctx.pick(300, 6000))):
        k = rng.choice([1, 2, 3, 6])
        texts = [rng.choice([".", "", ".5", "-.25", "0.5", ".0625", ".125e2", "7", "-3", "12.5", "1e3", "5.", rand_float_text(rng)]) for _ in range(k)]
        call(case_missing, texts)

    # ---- F3. results of the text builders stay what they were while later calls run (no shared output buffers) ------------------
    def case_held(seed_):
        r_ = random.Random(seed_)
        made = []
        for _ in range(4):
            n_ = r_.choice([2, 3, 3, 4])
            rows_ = ["".join(r_.choice("ACGT") for _ in range(3)) for _ in range(n_)]      # equal total lengths recur
            made.append((strops.join(bnp.as_encoded_array(rows_), "\t"), "\t".join(rows_) + "\t", "join"))
            lists_ = [[r_.randint(10, 99) for _ in range(2)] for _ in range(n_)]
            made.append((strops.int_lists_to_strings(RaggedArray([np.array(v, dtype=int) for v in lists_]), keep_last=True), None, ("lists", lists_)))
            m_ = [[r_.randint(10, 99) for _ in range(2)] for _ in range(n_)]
            made.append((matrix_to_csv(np.array(m_, dtype=np.int64), header=["a", "b"], sep="\t"), "a\tb\n" + "".join("%d\t%d\n" % tuple(x) for x in m_), "matrix"))
        for res_, exp_, kind_ in made:
            if kind_ == "join":
                got_ = res_.to_string() if hasattr(res_, "to_string") else "".join(res_.tolist())
                ok_ = got_ == exp_ or got_ == exp_[:-1]
            elif kind_ == "matrix":
                got_ = res_.to_string()
                ok_ = got_ == exp_
            else:
                got_ = res_.tolist()
                ok_ = got_ == [",".join(map(str, v)) + "," for v in kind_[1]]
            ctx.check("held-text-results", ok_, "text-builders/result-changed-by-a-later-call:%s" % (kind_ if isinstance(kind_, str) else "int_lists"), "a result kept while later calls ran now reads %r" % (got_ if isinstance(got_, str) else got_[:3],), {"kind": str(kind_)[:80], "got": str(got_)[:200], "expected": str(exp_)[:200]}, None)
    from bionumpy.io.matrix_dump import matrix_to_csv, parse_matrix
    for i in range(ctx.share(ctx.pick(100, 2000))):
        call(case_held, ctx.seed * 31 + ctx.shard * 7 + i)

    # ---- G. matrix dump -----------------------------------------------------------------------
    from bionumpy.io.matrix_dump import matrix_to_csv, parse_matrix

    def case_matrix(m):
        mat = np.array(m, dtype=np.int64)
        if (len(m) + len(m[0]) + m[0][0]) % 3 == 0:
            mat = np.asfortranarray(mat)          # column-major memory layout: the same matrix
        header = ["c%d" % i for i in range(mat.shape[1])]
        txt = matrix_to_csv(mat, header=header, sep="\t").to_string()
        exp = "\t".join(header) + "\n" + "".join("\t".join(str(v) for v in row) + "\n" for row in m)
        ctx.check("matrix", txt == exp, "matrix_to_csv/wrong-text", "matrix_to_csv differs from canonical text", {"matrix": m, "got": txt, "expected": exp}, exp)
        back = parse_matrix(txt, field_type=int, rowname_type=None)
        ctx.check("matrix", np.asarray(back.data).tolist() == m, "parse_matrix/wrong-values", "parse_matrix(matrix_to_csv(m)) != m", {"matrix": m, "got": np.asarray(back.data).tolist()}, exp + "p")
        # the same text through the file entry point, the field type given by keyword or positionally
        from bionumpy.io.matrix_dump import read_matrix
        mp = ctx.path("m.tsv")
        with open(mp, "w") as fh:
            fh.write(txt)
        for how_ in ("keyword", "positional"):
            back2 = read_matrix(mp, field_type=int, rowname_type=None) if how_ == "keyword" else read_matrix(mp, int, str, None)
            ctx.check("matrix", np.asarray(back2.data).tolist() == m and np.asarray(back2.data).dtype.kind in "iu", "read_matrix/wrong-values:%s" % how_, "read_matrix(file, int) != m", {"matrix": m, "got": np.asarray(back2.data).tolist()}, exp + "f" + how_)

    for _ in range(ctx.share(ctx.pick(100, 3000))):
        r, c = rng.randint(1, 4), rng.randint(1, 4)
        m = [[(rng.choice(hot) if rng.random() < 0.2 else rand_int(rng)) for _ in range(c)] for _ in range(r)]
        call(case_matrix, m)

    for name in ("ints_to_strings", "str_to_int", "str_to_float", "int_lists_to_strings"):
        ctx.floor("contract_eval:" + name, ctx.pick(100, 2000))


def replay(ctx, witness):
    import bionumpy as bnp
    from bionumpy.io import strops
    mon = Monitors(ctx)
    mon.install()
    if "batch" in witness and witness.get("value") is not None and isinstance(witness.get("value"), int):
        strops.ints_to_strings(np.array(witness["batch"], dtype=np.int64))
    elif "text" in witness and "batch" in witness:
        b = bnp.as_encoded_array(witness["batch"])
        (strops.str_to_float if isinstance(witness.get("expected"), float) else strops.str_to_int)(b)
    elif "value" in witness and "text" in witness:
        strops.str_to_float(strops.float_to_strings(np.array([witness["value"]])))
    ctx.evaluations += 1
