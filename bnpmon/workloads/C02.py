"""C02 — parsed columns mean what the file format says the text means.

Boundary monitor with ground truth by construction: records are drawn, rendered by the format grammar (R1) and the
parsed table is compared column by column with the generating records, lazily (every field touched) and eagerly and through
buffer_type.from_raw_buffer(...).get_data().  All cases of a shard run in ONE interpreter in random order, so
process-global parser state (class-level caches) is part of the workload.
"""
import numpy as np

from bnpmon.models.formats import FORMATS, make_file
from bnpmon import tables

RULE = ("per-format grammar (19 grammars: fasta2, wrapped fasta, fastq, bed3/6/12, bedGraph, narrowPeak, chrom.sizes, gfa, pairs, gtf, gff3, wig, "
        "vcf +-INFO header, vcf with genotype columns (unphased/phased/haplotype/string), sam) draws 1..N typed records then renders them "
        "(LF/CRLF, canonical or valid non-canonical spelling, interior comments, '.' placeholders, wrap widths); each (file, read mode) is one "
        "evaluation; distinct = distinct file bytes x mode; non-trivial = >= 2 records or a record with a field of width != 1")
ASSUMPTIONS = ["ground truth is the generating record list (R1), floats compared within 4 ulp (C18's bound)",
               "missing typed INFO keys compare to the library's documented missing values (0 / NaN / [] / False / '')"]

# (format, buffer override, style overrides, expected-columns tweak)
VARIANTS = [
    ("fasta2", None, {}), ("fasta2", None, {"descriptions": True}), ("fastaw", None, {}), ("fastq", None, {}), ("fastq", None, {"plusname": True}),
    ("bed3", None, {}), ("bed6", None, {}), ("bed6", None, {"score_mode": "dot"}), ("bed6", None, {"score_mode": "mixed"}), ("bed6", None, {"score_mode": "mixed", "score_small": True}), ("bed6", None, {"dot_strand": True}),
    ("bed12", None, {}), ("bed12", None, {"trailing_comma": True}), ("bdg", None, {}), ("narrowpeak", None, {}), ("sizes", None, {}), ("gfa", None, {}),
    ("pairs", None, {}), ("gtf", None, {"comments": True}), ("gff3", None, {"comments": True}), ("wig", None, {"comments": True}),
    ("vcf", None, {}), ("vcf", None, {"info_defs_alt": True}), ("vcf", None, {"info_defs_alt": "number"}), ("vcf_noinfo", None, {}), ("vcf_noinfo", "VCFWithInfoAsStringBuffer", {}), ("vcf_gt", None, {}),
    ("vcf_gt", "VCFMatrixBuffer", {}), ("vcf_gt", "VCFBuffer2", {}), ("vcf_gt", "VCFBuffer2", {"rich_format": True}), ("vcf_gt", "VCFMatrixBuffer", {"rich_format": True}), ("vcf_phased", "PhasedVCFMatrixBuffer", {}), ("vcf_phased", "PhasedHaplotypeVCFMatrixBuffer", {}),
    ("sam", None, {}), ("sam", None, {"tags": False}), ("csv4", None, {}), ("ssv4", None, {}),
]


def preload():
    import bionumpy  # noqa
    for n in ("VCFMatrixBuffer", "Bed6Buffer", "TwoLineFastaBuffer"):
        tables.get_buffer_type(n)


def expected_for(fc, buffer):
    cols = tables.expected_columns(fc)
    recs = fc["records"]
    if buffer in ("VCFMatrixBuffer", "PhasedVCFMatrixBuffer"):
        cols["genotypes"] = ["\t".join(r["values"]["genotypes"]) for r in recs]
    elif buffer == "PhasedHaplotypeVCFMatrixBuffer":
        cols["genotypes"] = [[int(c) for g in r["values"]["genotypes"] for c in (g[0], g[2])] for r in recs]
    elif buffer == "VCFBuffer2":
        cols["genotype"] = [list(r["values"]["genotypes"]) for r in recs]
    if buffer == "VCFWithInfoAsStringBuffer":
        cols["info"] = [r["values"]["info_text"] for r in recs]
    return cols


def genotype_column(table, buffer):
    g = table.genotypes
    enc = g.encoding
    raw = g.raw()
    if buffer == "PhasedHaplotypeVCFMatrixBuffer":
        return np.asarray(raw).tolist()
    dec = enc.decode(raw)
    return [bytes(np.asarray(row, dtype=np.uint8)).decode("latin1") for row in dec]


def read_columns(table, fc, buffer):
    fmt = FORMATS[fc["fmt"]]
    cols = tables.table_columns(table, list(fmt.fields))
    if buffer in ("VCFMatrixBuffer", "PhasedVCFMatrixBuffer", "PhasedHaplotypeVCFMatrixBuffer"):
        cols["genotypes"] = genotype_column(table, buffer) if hasattr(table, "genotypes") else None
    elif buffer == "VCFBuffer2":
        g = getattr(table, "genotype", None)
        cols["genotype"] = None if g is None else [[x.decode() if isinstance(x, bytes) else str(x) for x in row] for row in np.asarray(g.raw() if hasattr(g, "raw") else g).tolist()]
    return cols


def classify(fc, variant, field, mode):
    """Mechanism key: variant (+crlf when the file is CRLF: line-end handling is per-format code), field, and the
    generator feature the mismatch is tied to.  The read mode is deliberately not part of the key."""
    style = fc["style"]
    tags = []
    if style.get("trailing_comma") and field in ("block_sizes", "block_starts", "*"):
        tags.append("trailing-comma-list")
    if style.get("score_mode") == "mixed" and field in ("score", "*"):
        tags.append("dot-mixed-with-numbers")
    v = variant + ("+crlf" if fc["eol"] == "\r\n" else "")
    return "%s/%s%s" % (v, field, (":" + "+".join(tags)) if tags else "")


def run(ctx):
    import bionumpy as bnp
    rng = ctx.rng
    n_cases = ctx.share(ctx.pick(90 * len(VARIANTS), 1500 * len(VARIANTS)))
    max_n = ctx.pick(6, 40)
    order = [VARIANTS[i % len(VARIANTS)] for i in range(n_cases)]
    rng.shuffle(order)
    ctx.meta["variants"] = len(VARIANTS)

    def one(case):
        fname, buffer, st, seed = case
        import random
        r = random.Random(seed)
        n = r.choice([1, 1, 2, 3, max_n]) if r.random() < 0.7 else r.randint(1, max_n)
        style = dict(st)
        style["eol"] = "\r\n" if r.random() < 0.3 else "\n"
        style["crlf_header"] = r.random() < 0.6         # a file with CRLF line ends has them on its header lines too (most of the time)
        style["noncanon"] = r.random() < 0.4
        style["final_newline"] = r.random() < 0.8
        if fname == "fastaw" and r.random() < 0.5:
            style["wrap"] = r.randint(1, 12)
        prof = r.choice(["tiny", "normal", "normal", "wide"])
        fc = make_file(fname, r, n, prof, style)
        fmt = FORMATS[fname]
        variant = fname + ("@" + buffer if buffer else "")
        exp = expected_for(fc, buffer)
        path = tables.write_case_file(ctx, fc)
        nontrivial = (fc["data"], ) if (n >= 2 or any(len(t) != 1 for rec in fc["records"] for t in rec["texts"])) else None
        modes = [("lazy", True), ("eager", False)] if fmt.lazy else [("eager", False)]
        if fname in ("vcf_gt", "vcf") and r.random() < 0.5:
            # the same file (the same header text) was read through ANOTHER VCF buffer type earlier in the process
            other_bt = r.choice([b for b in (None, "VCFBuffer2", "VCFMatrixBuffer", "VCFWithInfoAsStringBuffer") if b != buffer and (fname == "vcf_gt" or b in (None, "VCFWithInfoAsStringBuffer"))])
            try:
                ot = tables.open_case(path, fc, lazy=r.random() < 0.5, buffer=other_bt).read()
                for fl_ in ("position", "genotypes", "info"):
                    if hasattr(ot, fl_):
                        try:
                            tables.column(ot, fl_)
                        except Exception:
                            pass
                ctx.count("same_header_through_another_buffer_type_first")
            except Exception:
                pass
        direct = [("buffer", None)] if (not fc["header"] or fname in ("gff3", "wig")) and fname not in ("fastaw",) else []      # formats whose buffer class takes the bytes of the whole file
        for mode, lazy in modes + [("raw", None)] + direct:
            try:
                if mode == "buffer":
                    # the second observation point: buffer_type.from_raw_buffer(bytes).get_data(), the comment / header lines still in the bytes
                    bt = tables.get_buffer_type(buffer or fmt.buffer) or bnp.io.files._get_buffer_type(fmt.suffix)
                    raw_ = fc["data"] if fc["data"].endswith(b"\n") else fc["data"] + b"\n"
                    table = bt.from_raw_buffer(np.frombuffer(raw_, dtype=np.uint8)).get_data()
                    ctx.count("direct_buffer_reads")
                elif mode == "raw":
                    bt = tables.get_buffer_type(buffer or fmt.buffer) or bnp.io.files._get_buffer_type(fmt.suffix)
                    import io
                    f = io.BytesIO(fc["data"])
                    reader = bnp.io.parser.NumpyFileReader(f, bt)
                    first_part = None
                    if r.random() < 0.25 and len(fc["raws"]) >= 2:
                        # chunk-wise reading taken up and abandoned after one chunk; the rest of the file is read in one go
                        first_part = reader.read_chunk(min_chunk_size=r.randint(max(len(x) for x in fc["raws"]) + 2, len(fc["data"]) + 2))
                        ctx.count("read_chunk_then_read")
                    chunk = reader.read()
                    if chunk is not None and r.random() < 0.3:
                        chunk.get_data()        # the buffer parsed once before (parsing must not change what the buffer holds)
                    table = chunk.get_data() if chunk is not None else None
                    if first_part is not None:
                        fp_ = first_part.get_data()
                        table = fp_ if table is None or len(table) == 0 else np.concatenate([fp_, table])
                else:
                    table = tables.open_case(path, fc, lazy=lazy, buffer=buffer).read()
                n_got = len(table)
                if n_got >= 2 and r.random() < 0.4:
                    # something is done with a row slice first (slices share the table's buffers): its columns are read, or it is written to a file;
                    # only then are the columns of the whole table read.  None of this may change what the table's columns say.
                    a_ = r.choice([0, 0, r.randint(0, n_got - 1)])
                    b_ = r.randint(a_ + 1, n_got)
                    st_ = r.choice([1, 1, 1, 2])
                    sl_ = r.choice([slice(a_, b_, st_), slice(a_, b_), slice(a_, None)])
                    part_t = table[sl_]
                    rows_ = list(range(n_got))[sl_]
                    what_ = r.choice(["columns", "columns", "write", "write-then-columns"])
                    if what_ != "columns" and mode != "raw" and fmt.lazy:
                        try:
                            bt_ = tables.get_buffer_type(buffer or fmt.buffer)
                            with bnp.open(ctx.path("part" + fmt.suffix), "w", buffer_type=bt_) as of_:
                                of_.write(part_t)
                            ctx.count("slice_written_before_whole")
                        except Exception:
                            ctx.count("slice_write_refused")
                    if what_ != "write":
                        part = read_columns(part_t, fc, buffer)
                        bad_part = tables.compare_columns(part, {f_: (None if v_ is None else [v_[i_] for i_ in rows_]) for f_, v_ in exp.items()})
                        if bad_part:
                            ctx.violation(classify(fc, variant, bad_part[0][0], mode) + ":row-slice", "%s field %s of table[%s] parsed as %r, the text means %r" % (variant, bad_part[0][0], sl_, bad_part[0][2], bad_part[0][3]),
                                          {"variant": variant, "mode": mode, "data": fc["data"].decode("latin1"), "field": bad_part[0][0]})
                        ctx.count("slice_read_before_whole")
                cols = read_columns(table, fc, buffer)
            except Exception as e:
                from bnpmon.ctx import exc_site, originates_in_library
                if not originates_in_library(e):
                    raise
                et, site = exc_site(e)
                ctx.judged("parse:" + variant, nontrivial and (nontrivial, mode))
                ctx.violation(classify(fc, variant, "*", mode) + ":raised-%s@%s" % (et, site), "reading a well-formed %s file raised %s: %s" % (variant, et, str(e)[:120]),
                              {"variant": variant, "mode": mode, "data": fc["data"].decode("latin1"), "style": style})
                continue
            ok = ctx.check("count:" + variant, n_got == len(fc["records"]), classify(fc, variant, "#entries", mode), "number of entries %d != number of records %d" % (n_got, len(fc["records"])),
                           {"variant": variant, "mode": mode, "data": fc["data"].decode("latin1"), "got": n_got, "expected": len(fc["records"])}, nontrivial and (nontrivial, mode))
            bad = tables.compare_columns(cols, exp)
            ctx.judged("parse:" + variant, nontrivial and (nontrivial, mode))
            for field, row, g, e in bad[:4]:
                ctx.violation(classify(fc, variant, field, mode), "column %s row %d parsed as %r, format says %r" % (field, row, g, e),
                              {"variant": variant, "mode": mode, "field": field, "row": row, "got": g, "expected": e, "data": fc["data"].decode("latin1"), "style": style})
        if ctx.rng.random() < 0.01:
            ctx.sample({"variant": variant, "data": fc["data"].decode("latin1")[:400], "expected_first_record": fc["records"][0]["values"]})

    for i, (fname, buffer, st) in enumerate(order):
        ctx.run_case(one, (fname, buffer, st, rng.randrange(2 ** 40)))
    ctx.floor("judged:parse:bed6", ctx.pick(5, 100))


def replay(ctx, w):
    pass
