"""C19 — tables of entries behave like column-aligned NumPy records.

Operation-history monitor against a list-of-tuples model (R5) + equal-column-length invariant checked on every table the
library hands back + operand snapshot-compare (M7).
"""
import dataclasses
import math
import random
from typing import List, Optional

import numpy as np

RULE = ("table types from bionumpy.datatypes (Interval, Bed6, BedGraph, NarrowPeak, Bed12, SequenceEntry, SequenceEntryWithQuality, LocationEntry, ChromosomeSize) and dynamically made ones "
        "(str, SequenceID, int, float, bool, Optional[int], List[int], DNA-encoded and nested-table columns) with 0..6 rows (empty and single-row favoured); programs of <=4 (8) operations from "
        "{len, index int/slice/mask/fancy, np.concatenate, sort_by, iteration, bnp.replace, add_fields, tolist/from_entry_tuples, todict/from_dict, topandas/from_data_frame}; "
        "one evaluation = one step compared with the list-of-tuples model; distinct = (type, rows, program prefix); non-trivial = operand has >= 2 rows")
ASSUMPTIONS = ["list-of-tuples with NumPy index semantics is the reference (R5)", "sort_by is judged as: result is a permutation of the rows and the key column is non-decreasing (ties have no defined order)"]
EXHAUSTIVE_CORE = None


def preload():
    import bionumpy  # noqa
    import bionumpy.bnpdataclass.pandas_adaptor  # noqa
    import pandas  # noqa


def run(ctx):
    import bionumpy as bnp
    from bionumpy.bnpdataclass import bnpdataclass, make_dataclass
    from bionumpy import datatypes as dt
    from bionumpy.typing import SequenceID
    from bionumpy.encodings import DNAEncoding
    from bnpmon import tables
    from bnpmon.ctx import originates_in_library, exc_site
    rng = ctx.rng
    maxops = ctx.pick(4, 8)

    @bnpdataclass
    class Mixed:
        name: str
        ident: SequenceID
        count: int
        score: float
        flag: bool
        opt: Optional[int]
        vals: List[int]
        dna: DNAEncoding

    @bnpdataclass
    class Nested:
        label: str
        iv: dt.Interval
        n: int

    @bnpdataclass
    class Pair:
        first: dt.Interval
        second: dt.Interval
        relation: str

    Dyn = make_dataclass([("a", int), ("b", str), ("c", float)], "Dyn")

    IDC = "abcXYZ019_."

    def g_str(r):
        return "".join(r.choice(IDC) for _ in range(r.choice([0, 1, 1, 3, 8])))

    id_lengths = [[1, 2, 5, 9, 10, 11, 14]]

    def g_id(r):
        return "".join(r.choice(IDC) for _ in range(r.choice(id_lengths[0])))

    GEN = {
        "str": g_str, "id": g_id, "int": lambda r: r.choice([0, 1, -3, 7, 10 ** 6, r.randint(-50, 50)]), "float": lambda r: r.choice([0.0, 1.5, -2.25, 1e-3, float(r.randint(-9, 9))]),
        "bool": lambda r: r.random() < 0.5, "ints": lambda r: [r.randint(0, 99) for _ in range(r.choice([0, 1, 2, 4]))], "dna": lambda r: "".join(r.choice("ACGT") for _ in range(r.choice([0, 1, 4, 9]))),
        "strand": lambda r: r.choice("+-"), "qual": None, "iv": lambda r: ("chr%d" % r.randint(1, 3), r.randint(0, 9), r.randint(10, 20)),
    }
    SPECS = {
        "Interval": (dt.Interval, [("chromosome", "id"), ("start", "int"), ("stop", "int")]),
        "Bed6": (dt.Bed6, [("chromosome", "id"), ("start", "int"), ("stop", "int"), ("name", "id"), ("score", "int"), ("strand", "strand")]),
        "BedGraph": (dt.BedGraph, [("chromosome", "id"), ("start", "int"), ("stop", "int"), ("value", "float")]),
        "LocationEntry": (dt.LocationEntry, [("chromosome", "id"), ("position", "int")]),
        "ChromosomeSize": (dt.ChromosomeSize, [("name", "str1"), ("size", "int")]),
        "SequenceEntry": (dt.SequenceEntry, [("name", "id"), ("sequence", "str")]),
        "SequenceEntryWithQuality": (dt.SequenceEntryWithQuality, [("name", "id"), ("sequence", "seqq"), ("quality", "qual")]),
        "Bed12": (dt.Bed12, [("chromosome", "id"), ("start", "int"), ("stop", "int"), ("name", "id"), ("score", "int"), ("strand", "strand"), ("thick_start", "int"), ("thick_end", "int"),
                             ("item_rgb", "str1"), ("block_count", "int"), ("block_sizes", "ints"), ("block_starts", "ints")]),
        "Mixed": (Mixed, [("name", "str"), ("ident", "id"), ("count", "int"), ("score", "float"), ("flag", "bool"), ("opt", "int"), ("vals", "ints"), ("dna", "dna")]),
        "Nested": (Nested, [("label", "str"), ("iv", "iv"), ("n", "int")]),
        "Pair": (Pair, [("first", "iv"), ("second", "iv"), ("relation", "str")]),
        "Dyn": (Dyn, [("a", "int"), ("b", "str"), ("c", "float")]),
    }

    def gen_row(r, spec):
        row = []
        for fname, kind in spec:
            if kind == "seqq":
                s = "".join(r.choice("ACGT") for _ in range(r.choice([1, 3, 6]) if not getattr(r, "all_empty_reads", False) else 0))
                row.append(s)
            elif kind == "qual":
                row.append([r.randint(0, 40) for _ in row[-1]])
            elif kind == "str1":
                row.append(g_id(r))
            else:
                row.append(GEN[kind](r))
        return tuple(row)

    qual_as_text = [False]

    def build(cls, spec, rows):
        cols = []
        for j, (fname, kind) in enumerate(spec):
            vals = [row[j] for row in rows]
            if kind == "int":
                cols.append(np.array(vals, dtype=int))
            elif kind == "float":
                cols.append(np.array(vals, dtype=float))
            elif kind == "bool":
                cols.append(np.array(vals, dtype=bool))
            elif kind == "qual" and qual_as_text[0]:
                cols.append(["".join(chr(33 + q) for q in v) for v in vals])       # qualities given as text (what a FASTQ line holds)
            elif kind in ("ints", "qual"):
                from npstructures import RaggedArray
                cols.append(RaggedArray([np.array(v, dtype=int) for v in vals]) if vals else RaggedArray(np.zeros(0, dtype=int), np.zeros(0, dtype=int)))
            elif kind == "iv":
                cols.append(dt.Interval([v[0] for v in vals], np.array([v[1] for v in vals], dtype=int), np.array([v[2] for v in vals], dtype=int)))
            elif kind in ("str", "id", "str1", "seqq") and vals and text_columns_as[0] != "list":
                # the text column is handed over as an encoded array (the column of another table, the result of a computation) instead of a list of
                # strings; its codes may be held in any integer type
                from bionumpy.encoded_array import EncodedArray, EncodedRaggedArray, BaseEncoding
                codes = np.array([ord(ch) for v in vals for ch in v], dtype={"encoded": np.uint8, "encoded-wide-codes": text_wide_dtype[0]}[text_columns_as[0]])
                cols.append(EncodedRaggedArray(EncodedArray(codes, BaseEncoding), [len(v) for v in vals]))
                ctx.count("text_columns_given_as_encoded_arrays")
            else:
                cols.append(list(vals))
        return cls(*cols)

    text_columns_as = ["list"]
    text_wide_dtype = [np.int64]

    def model_rows(spec, rows):
        out = []
        for row in rows:
            o = []
            for (fname, kind), v in zip(spec, row):
                if kind == "iv":
                    o.append((("chromosome", v[0]), ("start", v[1]), ("stop", v[2])))
                elif kind in ("ints", "qual"):
                    o.append(tuple(v))
                elif kind == "strand":
                    o.append(v)
                else:
                    o.append(v)
            out.append(tuple(o))
        return out

    def observed_rows(t, spec):
        rows = tables.rows_of(t, [f for f, _ in spec])
        return rows

    def col_lengths_ok(t):
        n = len(t)
        for f in dataclasses.fields(t):
            if len(getattr(t, f.name)) != n:
                return False
        return True

    def eq_rows(a, b):
        if len(a) != len(b):
            return False
        for x, y in zip(a, b):
            if len(x) != len(y):
                return False
            for p, q in zip(x, y):
                if isinstance(p, float) and isinstance(q, float):
                    if not (p == q or (math.isnan(p) and math.isnan(q))):
                        return False
                elif isinstance(q, bool) or isinstance(p, bool):
                    if bool(p) != bool(q):
                        return False
                elif p != q:
                    return False
        return True

    def program(case):
        r = random.Random(case["seed"])
        tname = r.choice(list(SPECS))
        cls, spec = SPECS[tname]
        if r.random() < 0.15:
            # a dynamically made table type: the same few field names come back with other column types in the same process
            TYPES = {"int": int, "str": str, "float": float, "ints": List[int], "dna": DNAEncoding, "bool": bool, "id": SequenceID}
            names = r.sample(["c0", "c1", "c2"], r.choice([1, 2, 3]))
            spec = [(nm, r.choice(list(TYPES))) for nm in sorted(names)]
            cls = make_dataclass([(nm, TYPES[k]) for nm, k in spec]) if r.random() < 0.7 else make_dataclass([(nm, TYPES[k]) for nm, k in spec], "Dyn")
            tname = "DynamicDC"
            declared = [f.type for f in dataclasses.fields(cls)]
            ctx.check("dynamic-declared-types", declared == [TYPES[k] for _, k in spec], "DynamicDC/declared-field-types-differ", "make_dataclass(%r) reports field types %r" % (spec, declared), {"spec": spec, "declared": [str(d) for d in declared]}, None)
        n = r.choice([0, 1, 1, 2, 3, 6])
        r.all_empty_reads = tname == "SequenceEntryWithQuality" and r.random() < 0.15       # reads trimmed to nothing
        qual_as_text[0] = r.random() < 0.4
        text_columns_as[0] = r.choice(["list", "list", "list", "encoded", "encoded-wide-codes"])
        # identifiers of a few neighbouring lengths (chr1, chr10, chrX ...): unequal rows whose lengths still add up like equal ones are common then
        id_lengths[0] = r.choice([[1, 2, 5, 9, 10, 11, 14], [1, 2, 5, 9, 10, 11, 14], [1, 2, 3], [3, 4, 5], [4, 5]])
        text_wide_dtype[0] = r.choice([np.int64, np.int16, np.uint16, np.int32])
        rows = [gen_row(r, spec) for _ in range(n)]
        t = build(cls, spec, rows)
        model = model_rows(spec, rows)
        init = {"type": tname, "rows": [list(map(str, x)) for x in rows][:6]}
        history = []
        # blind programs: a table-valued result is handed to the next operation without the harness reading it (reading flattens lazy
        # row selections of ragged columns and fills caches); only the end of the chain and the row-valued operations are judged
        blind = r.random() < 0.4
        pending = None
        init["blind"] = blind
        wit0 = dict(init)
        got = observed_rows(t, spec)
        ctx.check("construct", eq_rows(got, model), "%s/construct" % tname, "constructed table rows %r differ from the values given %r" % (got[:3], model[:3]), wit0, (tname, repr(rows)) if n >= 2 else None)
        ctx.check("equal-lengths", col_lengths_ok(t), "%s/columns-of-unequal-length" % tname, "columns of unequal length after construction", wit0, None)
        for step in range(r.randint(1, maxops)):
            n = len(model)
            ops = ["slice", "mask", "fancy", "concat", "iterate", "tolist_roundtrip", "replace", "todict", "pandas", "len", "replace_wrong_length"]
            if n:
                ops += ["int", "int"]
            if any(k in ("int", "float", "strand") for _, k in spec):
                ops.append("sort_by")
            if tname in ("Interval", "BedGraph", "Dyn", "LocationEntry"):
                ops.append("add_fields")
            op = r.choice(ops)
            nt = (tname, repr(rows), repr(history), op) if n >= 2 else None
            before = observed_rows(t, spec) if not blind else None
            wit = dict(init, program=history + [op])
            opkey = "%s.%s" % (tname if tname in ("Nested", "Pair", "Mixed", "Bed12", "SequenceEntryWithQuality") else "table", op)
            try:
                if op == "len":
                    ctx.check(opkey, len(t) == n, "%s/len" % opkey, "len %d != %d" % (len(t), n), wit, nt)
                    continue
                if op == "int":
                    i = r.randint(-n, n - 1)
                    e = t[i]
                    vals = tuple(tables._hashable(tables.norm_scalar(getattr(e, f))) for f, _ in spec) if hasattr(tables, "norm_scalar") else None
                    one = t[i:i + 1] if i != -1 else t[i:]
                    g = observed_rows(one, spec)
                    ctx.check(opkey, eq_rows(g, [model[i]]), "%s/row" % opkey, "t[%d:%d] gave %r expected %r" % (i, i + 1, g, model[i]), wit, nt)
                    str(e)
                    continue
                if op == "slice":
                    sl = slice(r.choice([None, r.randint(-n - 1, n + 1)]), r.choice([None, r.randint(-n - 1, n + 1)]), r.choice([None, 1, 2, -1]))
                    res, m2 = t[sl], model[sl]
                    history.append(["slice", [sl.start, sl.stop, sl.step]])
                elif op == "mask":
                    mk = [r.random() < 0.5 for _ in range(n)]
                    as_list = r.random() < 0.3 and n > 0        # a Python list of bools (the docstrings' form) or a NumPy array
                    res, m2 = t[mk if as_list else np.array(mk, dtype=bool)], [x for x, k in zip(model, mk) if k]
                    history.append(["mask", mk, "list" if as_list else "array"])
                elif op == "fancy":
                    idx = [r.randint(-n, n - 1) for _ in range(r.randint(0, 4))] if n else []
                    as_list = r.random() < 0.3 and len(idx) > 0
                    res, m2 = t[idx if as_list else np.array(idx, dtype=int)], [model[i] for i in idx]
                    history.append(["fancy", idx, "list" if as_list else "array"])
                elif op == "replace_wrong_length":
                    # a replacement column of another length must be refused: every table has columns of equal length
                    cand = [(f, k) for f, k in spec if k in ("int", "float")]
                    if not cand or len(spec) < 2:       # with a single column any length gives a consistent table
                        continue
                    fn, kind = r.choice(cand)
                    wrong = n + r.choice([1, 2]) if (n == 0 or r.random() < 0.5) else n - 1
                    try:
                        bad = bnp.replace(t, **{fn: np.zeros(wrong, dtype=int if kind == "int" else float)})
                    except Exception:
                        ctx.judged(opkey, nt)
                        continue
                    ctx.check(opkey, col_lengths_ok(bad), "%s/accepted-a-column-of-another-length" % opkey, "bnp.replace accepted a column of %d values for a table of %d rows" % (wrong, n), dict(wit, field=fn, wrong_length=wrong), nt)
                    continue
                elif op == "concat":
                    rows2 = [gen_row(r, spec) for _ in range(r.choice([0, 1, 2]))]
                    u = build(cls, spec, rows2)
                    ub = observed_rows(u, spec)
                    res = np.concatenate([t, u])
                    m2 = model + model_rows(spec, rows2)
                    if not eq_rows(observed_rows(u, spec), ub):
                        ctx.violation("%s/operand-mutated" % opkey, "np.concatenate changed its second operand", wit)
                    history.append(["concat", [list(map(str, x)) for x in rows2]])
                elif op == "sort_by":
                    f = r.choice([fn for fn, k in spec if k in ("int", "float", "strand")])       # a one-symbol column (strand) sorts by its alphabet order '+', '-', '.'
                    j = [fn for fn, _ in spec].index(f)
                    res = t.sort_by(f)
                    g = observed_rows(res, spec)
                    keys = [x[j] for x in g]
                    canon = lambda x: repr(tuple((int(v) if isinstance(v, float) and v == int(v) else v) if not isinstance(v, tuple) else tuple(int(w) if isinstance(w, float) and w == int(w) else w for w in v) for v in x))
                    ok = sorted(map(canon, g)) == sorted(map(canon, model)) and all(a <= b for a, b in zip(keys, keys[1:]))
                    ctx.check(opkey, ok, "%s/not-sorted-permutation" % opkey, "sort_by(%s) gave %r" % (f, g[:5]), dict(wit, got=[list(map(str, x)) for x in g][:8]), nt)
                    m2 = [tuple(x) for x in g] if ok else None
                    if not blind and not eq_rows(observed_rows(t, spec), before):
                        ctx.violation("%s/operand-mutated" % opkey, "sort_by changed its operand", wit)
                    if ok:
                        t, model = res, g
                        history.append(["sort_by", f])
                    continue
                elif op == "iterate":
                    ents = list(t)
                    g = []
                    for e in ents:
                        one_row = []
                        for (f, k) in spec:
                            v = getattr(e, f)
                            one_row.append(tables._hashable(tables.norm_entry_value(v)))
                        g.append(tuple(one_row))
                    ctx.check(opkey, eq_rows(g, model), "%s/entries" % opkey, "iteration gave %r expected %r" % (g[:3], model[:3]), dict(wit, got=[list(map(str, x)) for x in g][:6]), nt)
                    continue
                elif op == "tolist_roundtrip":
                    if any(k == "iv" for _, k in spec):
                        continue
                    lst = t.tolist()
                    ctx.check(opkey, len(lst) == n, "%s/tolist-length" % opkey, "tolist returned %d entries for %d rows" % (len(lst), n), wit, nt)
                    if n == 0:
                        continue
                    tup = [tuple(getattr(e, f) for f, _ in spec) for e in lst]
                    back = cls.from_entry_tuples(tup)
                    g = observed_rows(back, spec)
                    ctx.check(opkey, eq_rows(g, model), "%s/from_entry_tuples(tolist)" % opkey, "from_entry_tuples(tolist(t)) gave %r expected %r" % (g[:3], model[:3]), dict(wit, got=[list(map(str, x)) for x in g][:6]), nt)
                    continue
                elif op == "replace":
                    fn, kind = r.choice([(f, k) for f, k in spec if k in ("int", "float", "str", "id", "dna")] or [(None, None)])
                    if fn is None:
                        continue
                    j = [f for f, _ in spec].index(fn)
                    newv = [GEN[kind](r) for _ in range(n)]
                    arr = np.array(newv, dtype=int) if kind == "int" else (np.array(newv, dtype=float) if kind == "float" else newv)
                    if kind in ("str", "id", "dna") and n == 0:
                        continue
                    res = bnp.replace(t, **{fn: arr})
                    m2 = [x[:j] + (v,) + x[j + 1:] for x, v in zip(model, newv)]
                    history.append(["replace", fn])
                elif op == "add_fields":
                    newv = [r.randint(0, 9) for _ in range(n)]
                    res2 = t.add_fields({"extra": list(newv)}, field_type_map={"extra": int})
                    g = observed_rows(res2, spec)
                    ex = np.asarray(res2.extra).tolist()
                    ctx.check(opkey, eq_rows(g, model) and ex == newv and col_lengths_ok(res2), "%s/add_fields" % opkey, "add_fields changed existing rows or lost the new column", wit, nt)
                    if (not blind and not eq_rows(observed_rows(t, spec), before)) or hasattr(t, "extra"):
                        ctx.violation("%s/operand-mutated" % opkey, "add_fields changed its operand", wit)
                    continue
                elif op == "todict":
                    d = t.todict()
                    if n == 0:
                        # a table without rows: every column of the dict is empty
                        lens_ = {k_: len(v_) for k_, v_ in d.items()}
                        ctx.check(opkey, all(l_ == 0 for l_ in lens_.values()), "%s/todict-of-an-empty-table-has-rows" % opkey, "todict() of a table without rows has column lengths %r" % lens_, wit, None)
                    back = cls.from_dict(d) if n else None
                    if back is None:
                        continue
                    g = observed_rows(back, spec)
                    ctx.check(opkey, eq_rows(g, model), "%s/from_dict(todict)" % opkey, "from_dict(todict(t)) gave %r expected %r" % (g[:3], model[:3]), dict(wit, got=[list(map(str, x)) for x in g][:6]), nt)
                    continue
                elif op == "pandas":
                    if n == 0:
                        df0 = t.topandas()          # an empty frame with the table's columns, not an error
                        ctx.check(opkey, len(df0) == 0, "%s/topandas-of-an-empty-table" % opkey, "topandas() of a table without rows has %d rows" % len(df0), wit, None)
                        continue
                    df = t.topandas()
                    ctx.check(opkey, len(df) == n, "%s/topandas-length" % opkey, "topandas has %d rows for %d entries" % (len(df), n), wit, nt)
                    back = cls.from_data_frame(df)
                    g = observed_rows(back, spec)
                    ctx.check(opkey, eq_rows(g, model), "%s/from_data_frame(topandas)" % opkey, "from_data_frame(topandas(t)) gave %r expected %r" % (g[:3], model[:3]), dict(wit, got=[list(map(str, x)) for x in g][:6]), nt)
                    continue
            except Exception as e:
                if not originates_in_library(e):
                    raise
                et, site = exc_site(e)
                ctx.judged(opkey, nt)
                ctx.violation("%s/raised:%s@%s" % (opkey, et, site), "%s raised %s: %s" % (opkey, et, str(e)[:120]), dict(wit, error=str(e)[:200]))
                return
            # table-valued result
            if blind:
                t, model = res, m2
                pending = (opkey, dict(wit, program=list(history)), nt)
                ctx.count("blind_steps")
                continue
            try:
                g = observed_rows(res, spec)
            except Exception as e:
                ctx.judged(opkey, nt)
                ctx.violation("%s/result-unreadable:%s" % (opkey, type(e).__name__), "result of %s cannot be read: %s" % (opkey, str(e)[:100]), wit)
                return
            ok = ctx.check(opkey, eq_rows(g, m2), "%s/rows-differ-from-model" % opkey, "%s: got %r expected %r" % (op, g[:3], m2[:3]), dict(wit, got=[list(map(str, x)) for x in g][:8], expected=[list(map(str, x)) for x in m2][:8]), nt)
            ctx.check("equal-lengths", col_lengths_ok(res), "%s/columns-of-unequal-length" % opkey, "columns of unequal length after %s" % op, wit, None)
            if not eq_rows(observed_rows(t, spec), before):
                ctx.violation("%s/operand-mutated" % opkey, "%s changed its operand" % op, wit)
            if not ok:
                return
            t, model = res, m2
        if blind and pending is not None:
            opkey, wit, nt = pending
            try:
                g = observed_rows(t, spec)
            except Exception as e:
                if not originates_in_library(e):
                    raise
                ctx.judged("chain-end", nt)
                ctx.violation("chain-end.%s/result-unreadable:%s" % (opkey, type(e).__name__), "the end of an unobserved chain cannot be read: %s" % str(e)[:100], wit)
                return
            ctx.check("chain-end", eq_rows(g, model), "chain-end.%s/rows-differ-from-model" % opkey, "unobserved chain ending in %s: got %r expected %r" % (opkey, g[:3], model[:3]),
                      dict(wit, got=[list(map(str, x)) for x in g][:8], expected=[list(map(str, x)) for x in model][:8]), nt)
            ctx.check("equal-lengths", col_lengths_ok(t), "chain-end.%s/columns-of-unequal-length" % opkey, "columns of unequal length at the end of a chain", wit, None)

    def construction(case):
        r = random.Random(case["seed"])
        # unequal column lengths must raise; convertible values must be converted
        try:
            dt.Interval(["a", "b"], [1, 2, 3], [4, 5])
            ctx.check("construct-raises", False, "construct/unequal-lengths-accepted", "Interval with columns of length 2,3,2 was accepted", {}, "uneq")
        except Exception:
            ctx.judged("construct-raises", "uneq")
        t = dt.Interval(["a", "b"], [1, 2], [4, 5])
        ctx.check("construct-converts", isinstance(t.start, np.ndarray) and t.start.dtype.kind == "i" and t.chromosome.tolist() == ["a", "b"], "construct/no-conversion", "lists were not converted to arrays", {}, "conv")
        from bionumpy.encodings import alphabet_encoding as ae
        for src_name, text in (("ACUGEncoding", "ACU"), ("ACUGEncoding", "AUG"), ("ACTGEncoding", "ACT"), ("ACTGEncoding", "TTG"), ("AminoAcidEncoding", "ACD"), ("ACGTnEncoding", "ACGN"), ("ACGTnEncoding", "ACG")):
            pre = bnp.as_encoded_array([text, text[:1]], getattr(ae, src_name))
            try:
                t = Mixed(["x", "y"], ["i", "j"], [1, 2], [1.0, 2.0], [True, False], [2, 3], [[1, 2], []], pre)
                got = t.dna.tolist()
                other = Mixed(["z"], ["k"], [3], [3.0], [True], [4], [[5]], ["GATTACA"])
                for order, cat in (("pre-first", np.concatenate([t, other])), ("pre-last", np.concatenate([other, t]))):
                    gotc = cat.dna.tolist()
                    wantc = [text, text[:1], "GATTACA"] if order == "pre-first" else ["GATTACA", text, text[:1]]
                    ctx.check("construct-converts", gotc == wantc, "construct/pre-encoded-column-relabelled:after-concatenation", "DNA column built from %s-encoded %r, concatenated (%s) with an ordinary table, reads %r" % (src_name, text, order, gotc),
                              {"source_encoding": src_name, "text": text, "got": gotc, "order": order}, ("precat", src_name, text, order))
                ctx.check("construct-converts", got == [text, text[:1]], "construct/pre-encoded-column-relabelled", "DNA column built from %s-encoded %r reads %r" % (src_name, [text, text[:1]], got), {"source_encoding": src_name, "text": text, "got": got}, ("pre", src_name, text))
            except Exception:
                ctx.judged("construct-raises", ("pre", src_name, text))
        # rows taken from tables whose text columns are held in different alphabets, joined into one table through entry tuples: the texts, or a refusal
        for enc_a, enc_b in (("ACGTEncoding", "ACUGEncoding"), ("ACGTEncoding", "ACTGEncoding"), ("ACTGEncoding", "ACGTEncoding"), ("ACGTEncoding", None)):
            a_rows = bnp.as_encoded_array(["ACGT", "GGT"], getattr(ae, enc_a))
            b_texts = ["ACGU", "UU"] if enc_b == "ACUGEncoding" else ["GTTA", "TG"]
            b_rows = bnp.as_encoded_array(b_texts, getattr(ae, enc_b)) if enc_b else bnp.as_encoded_array(b_texts)
            for order in ("a-b-a", "a-b", "b-a-a"):
                rows_ = {"a-b-a": [a_rows[0], b_rows[0], a_rows[1]], "a-b": [a_rows[0], b_rows[1]], "b-a-a": [b_rows[0], a_rows[0], a_rows[1]]}[order]
                want_ = {"a-b-a": ["ACGT", b_texts[0], "GGT"], "a-b": ["ACGT", b_texts[1]], "b-a-a": [b_texts[0], "ACGT", "GGT"]}[order]
                try:
                    tt = dt.SequenceEntry.from_entry_tuples([("n%d" % i, row) for i, row in enumerate(rows_)])
                    got_ = [str(x) for x in tt.sequence.tolist()]
                except Exception:
                    ctx.judged("construct-raises", ("mixed-rows", enc_a, enc_b, order))
                    continue
                ctx.check("construct-converts", got_ == want_, "construct/rows-of-two-alphabets-joined-code-by-code", "SequenceEntry.from_entry_tuples with rows in %s and %s (%s) reads %r, the rows say %r" % (enc_a, enc_b or "plain text", order, got_, want_),
                          {"encodings": [enc_a, enc_b], "order": order, "got": got_, "expected": want_}, ("mixed-rows", enc_a, enc_b, order))
        # several new fields at once, a type map naming some of them (not the first): the columns come out in the order given, each value under its own name
        b2 = dt.SequenceEntry(["s1", "s2"], ["ACGT", "GG"])
        new_fields = {"n_reads": [3, 4], "tag": ["AC", "T"], "weight": [0.5, 1.5]}
        for tmap in ({"tag": str}, {"weight": float, "tag": str}, {"weight": float}):
            try:
                r2 = b2.add_fields(dict(new_fields), field_type_map=dict(tmap))
            except Exception:
                ctx.judged("construct-raises", ("add_fields-order", tuple(tmap)))
                continue
            names_ = [f.name for f in dataclasses.fields(r2)]
            rows_ = [tuple((v if not hasattr(v, "to_string") else v.to_string()) if not isinstance(v, (np.integer, np.floating)) else v.item() for v in (getattr(e, f_) for f_ in names_)) for e in r2.tolist()]
            want_names = ["name", "sequence", "n_reads", "tag", "weight"]
            want_rows = [("s1", "ACGT", 3, "AC", 0.5), ("s2", "GG", 4, "T", 1.5)]
            ctx.check("construct-converts", names_ == want_names and [tuple(map(str, x)) for x in rows_] == [tuple(map(str, x)) for x in want_rows], "add_fields/fields-in-another-order-than-given",
                      "add_fields(%r, field_type_map=%r) gives fields %r and rows %r" % (list(new_fields), {k_: v_.__name__ for k_, v_ in tmap.items()}, names_, rows_), {"fields": names_, "rows": [list(map(str, x)) for x in rows_]}, ("add_fields-order", tuple(tmap)))
        # rows handed to from_entry_tuples as a one-shot iterable (generator, zip, map): every row is there
        src_rows = [("a", 1, 5), ("b", 2, 6), ("c", 3, 7)]
        for how_, mk_it in (("generator", lambda rr: (x for x in rr)), ("zip", lambda rr: zip(*[list(col) for col in zip(*rr)])), ("iter", lambda rr: iter(rr)), ("list", lambda rr: list(rr))):
            for rr in (src_rows, src_rows[:1]):
                try:
                    tt = dt.Interval.from_entry_tuples(mk_it(rr))
                    got_ = [(str(e.chromosome), int(e.start), int(e.stop)) for e in tt.tolist()]
                except Exception as e:
                    got_ = "raised %s" % type(e).__name__
                ctx.check("construct-converts", got_ == [tuple(x) for x in rr], "from_entry_tuples/rows-differ:%s" % ("one-shot-iterable" if how_ != "list" else "list"), "from_entry_tuples(%s of %d rows) gives %r" % (how_, len(rr), got_), {"how": how_, "rows": [list(x) for x in rr], "got": str(got_)}, ("fet", how_, len(rr)))
        # add_fields without a type map: the new column gets one declared type, and every value of a long column is of that type (or the call refuses)
        base = dt.Interval(["c"] * 150, np.arange(150), np.arange(150) + 1)
        for odd_at, odd in ((120, 1.5), (149, "x"), (100, 2.5), (3, 1.5)):
            vals_ = [1] * 150
            vals_[odd_at] = odd
            try:
                res_ = base.add_fields({"extra": list(vals_)})
            except Exception:
                ctx.judged("construct-raises", ("add_fields-mixed", odd_at))
                continue
            declared = {f.name: f.type for f in dataclasses.fields(res_)}["extra"]
            col = np.asarray(res_.extra)
            ok_ = (declared is int and col.dtype.kind in "iu") or (declared is float and col.dtype.kind == "f" and col.tolist() == [float(v) for v in vals_]) or (declared not in (int, float))
            ctx.check("construct-converts", ok_, "add_fields/column-of-another-type-than-declared", "add_fields with %r at row %d: the column is declared %r and holds dtype %s" % (odd, odd_at, declared, col.dtype),
                      {"odd_value": str(odd), "row": odd_at, "declared": str(declared), "dtype": str(col.dtype)}, ("add_fields-mixed", odd_at))
        try:
            Mixed(["x"], ["i"], [1], [1.0], [True], [2], [[1, 2]], ["ACGX"])
            ctx.check("construct-raises", False, "construct/invalid-dna-accepted", "DNA column accepted 'ACGX'", {}, "dna")
        except Exception:
            ctx.judged("construct-raises", "dna")

    def construction_from_columns(case):
        # tables built from the columns of other tables (or from arrays held in another alphabet): each column converted to its declared type, the sources unchanged
        r = random.Random(case["seed"])
        from bionumpy.encodings import alphabet_encoding as ae
        n_ = r.choice([1, 1, 2, 3, 5])
        k_ = r.randint(1, 6)
        equal_ = r.random() < 0.6
        enc_name = r.choice(["ACGTEncoding", "ACGTnEncoding", "AminoAcidEncoding", "ACTGEncoding", None])
        letters = {"ACGTEncoding": "ACGT", "ACGTnEncoding": "ACGTN", "AminoAcidEncoding": "ACDEFGHIK", "ACTGEncoding": "ACTG", None: "ACGTxyz_09"}[enc_name]
        texts = ["".join(r.choice(letters) for _ in range(k_ if equal_ else r.randint(1, 6))) for _ in range(n_)]
        col = bnp.as_encoded_array(texts, getattr(ae, enc_name)) if enc_name else bnp.as_encoded_array(texts)
        if r.random() < 0.3 and n_ > 1:
            keep = [r.random() < 0.7 for _ in range(n_)]
            if any(keep):
                col = col[np.array(keep)]
                texts = [t_ for t_, k in zip(texts, keep) if k]
        m_ = len(texts)
        shape_key = "%s:%s" % ("held-in-an-alphabet" if enc_name else "plain-text", "rows-of-equal-length" if len(set(map(len, texts))) == 1 else "ragged")
        for target in ("identifier", "text"):
            try:
                if target == "identifier":
                    t = dt.Interval(col, np.arange(m_), np.arange(m_) + 1)
                    got = [str(x) for x in t.chromosome.tolist()]
                    rows_ = [str(e.chromosome) for e in (t[::-1].tolist() if r.random() < 0.5 else t.tolist()[::-1])]
                else:
                    t = dt.Bed6(["c"] * m_, np.arange(m_), np.arange(m_) + 1, col, [0] * m_, ["+"] * m_)
                    got = [str(x) for x in t.name.tolist()]
                    rows_ = [str(e.name) for e in t.tolist()][::-1]
            except Exception:
                ctx.judged("construct-raises", ("cols", target, shape_key, m_))
                continue
            ctx.check("construct-converts", got == texts and rows_ == texts[::-1], "construct/%s-column-from-encoded-rows:%s" % (target, shape_key),
                      "%s column built from %s rows %r reads %r" % (target, enc_name or "plain", texts, got), {"encoding": enc_name, "texts": texts, "got": got, "rows": rows_}, ("cols", target, enc_name, tuple(texts)))
        # a table of reads with qualities built from the columns of an alignment table (whole or a selection): qualities are the numbers of the text, the source reads as before
        names = ["r%d" % i for i in range(n_)]
        seqs = ["".join(r.choice("ACGT") for _ in range(r.randint(1, 6))) for _ in range(n_)]
        quals = ["".join(chr(r.choice([33, 35, 53, 73, 126, r.randint(33, 126)])) for _ in s_) for s_ in seqs]
        src_kind = r.choice(["sam", "fastq-table"])
        if src_kind == "sam":
            src = dt.SAMEntry(names, [0] * n_, ["chr1"] * n_, list(range(1, n_ + 1)), [60] * n_, ["%dM" % len(s_) for s_ in seqs], ["="] * n_, [0] * n_, [0] * n_, seqs, quals, [""] * n_)
            snap = lambda: [(str(e.name), str(e.sequence), str(e.quality)) for e in src.tolist()]
        else:
            src = dt.SequenceEntryWithQuality(names, seqs, quals)
            snap = lambda: [(str(e.name), str(e.sequence), list(map(int, e.quality))) for e in src.tolist()]
        before = snap()
        lo = r.randint(0, n_ - 1) if r.random() < 0.5 else 0
        part = src[lo:] if lo else src
        try:
            built = dt.SequenceEntryWithQuality(part.name, part.sequence, part.quality)
            got_q = [list(map(int, e.quality)) for e in built.tolist()]
            ok_q = got_q == [[ord(ch) - 33 for ch in q_] for q_ in quals[lo:]]
            ctx.check("construct-converts", ok_q, "construct/quality-column-from-another-table:%s" % src_kind, "qualities of a table built from columns of a %s table read %r, the text says %r" % (src_kind, got_q[:3], quals[lo:][:3]),
                      {"source": src_kind, "qualities": quals, "from_row": lo, "got": got_q}, ("qcol", src_kind, tuple(quals), lo))
        except Exception:
            ctx.judged("construct-raises", ("qcol", src_kind, lo))
        after = snap()
        ctx.check("operands-unchanged", after == before, "construct/source-table-changed-by-building-another-from-its-columns:%s%s" % (src_kind, ":row-selection" if lo else ""),
                  "the %s table whose columns were handed to a constructor read %r before and %r afterwards" % (src_kind, before[:2], after[:2]), {"source": src_kind, "from_row": lo, "before": [list(map(str, x)) for x in before], "after": [list(map(str, x)) for x in after]}, ("qsrc", src_kind, tuple(quals), lo))
        # add_fields with the caller's type map: the map is the caller's and is handed in again for the next table, whose new columns may hold other kinds of values
        tmap = {"seq": bnp.DNAEncoding} if r.random() < 0.7 else {}
        tmap_before = dict(tmap)
        def mk_vals(kind_):
            return {"int": [r.randint(0, 99) for _ in range(2)], "str": [r.choice(["x", "yy", "ab"]) for _ in range(2)], "float": [r.choice([0.5, 1.25, 3.5]) for _ in range(2)]}[kind_]
        kinds = [r.choice(["int", "str", "float"]) for _ in range(2)]
        first_fails = r.random() < 0.3
        outcomes = []
        for step, kind_ in enumerate(kinds):
            vals = mk_vals(kind_)
            base_ = dt.SequenceEntry(["s1", "s2"], ["ACGT", "GG"])
            new_ = {"seq": ["ACG", "TT"], "label": list(vals) + ([vals[0]] if (first_fails and step == 0) else [])}
            def run_(map_):
                try:
                    res_ = base_.add_fields({k: list(v) for k, v in new_.items()}, field_type_map=map_)
                    return [(str(e.name), str(e.seq), e.label.item() if isinstance(e.label, np.generic) else (e.label.to_string() if hasattr(e.label, "to_string") else e.label)) for e in res_.tolist()]
                except Exception as e:
                    return "raised"
            got_shared = run_(tmap)
            got_fresh = run_(dict(tmap_before))
            ctx.check("construct-converts", str(got_shared) == str(got_fresh), "add_fields/result-depends-on-earlier-calls-with-the-same-type-map", "add_fields of a %s column with the caller's type map (call %d with this map; earlier kinds %r) gives %r, with a fresh copy of the map %r" % (kind_, step + 1, kinds[:step], got_shared, got_fresh),
                      {"kinds": kinds, "step": step, "first_call_refused": first_fails, "with_shared_map": str(got_shared), "with_fresh_map": str(got_fresh)}, ("tmap", tuple(kinds), step, first_fails, bool(tmap_before)))
            if got_fresh != "raised":
                ctx.check("construct-converts", [x[2] for x in got_fresh] == vals, "add_fields/values-differ", "add_fields label column %r reads %r" % (vals, got_fresh), {"values": list(map(str, vals)), "got": str(got_fresh)}, ("tmapv", kind_))
        ctx.check("operands-unchanged", tmap == tmap_before, "add_fields/callers-type-map-changed", "the field_type_map handed to add_fields was %r before and %r after" % (sorted(tmap_before), sorted(tmap)), {"before": sorted(tmap_before), "after": sorted(tmap)}, ("tmapd", tuple(kinds), bool(tmap_before)))
        # a table whose text column was replaced by rows held in an alphabet, joined with a table as built: the rows of both operands in order (letters of the plain operand may be folded
        # to the alphabet's case), or a refusal
        plain_txt = ["".join(r.choice("ACGTacgt") for _ in range(r.randint(1, 5))) for _ in range(r.randint(1, 3))]
        enc_txt = ["".join(r.choice("ACGT") for _ in range(r.randint(1, 5))) for _ in range(r.randint(1, 2))]
        t_plain = dt.SequenceEntry(["p%d" % i for i in range(len(plain_txt))], plain_txt)
        t_enc = bnp.replace(dt.SequenceEntry(["e%d" % i for i in range(len(enc_txt))], enc_txt), sequence=bnp.as_encoded_array(enc_txt, bnp.DNAEncoding))
        for order in ("replaced-first", "replaced-last"):
            ops_, want_ = ([t_enc, t_plain], enc_txt + plain_txt) if order == "replaced-first" else ([t_plain, t_enc], plain_txt + enc_txt)
            try:
                cat_ = np.concatenate(ops_)
            except Exception as e:
                from bnpmon.ctx import originates_in_library
                if not originates_in_library(e):
                    raise
                ctx.judged("construct-raises", ("cat-replaced", order))
                continue
            try:
                got_ = [str(x) for x in cat_.sequence.tolist()]
                names_ = [str(x) for x in cat_.name.tolist()]
            except Exception as e:
                got_, names_ = ["<unreadable: %s>" % type(e).__name__], []
            ctx.check("concat-rows", [g.upper() for g in got_] == [w.upper() for w in want_] and len(names_) == len(want_), "concat/text-column-held-in-an-alphabet-joined-with-plain-text:%s" % order,
                      "np.concatenate of a table whose sequence column was replaced by DNA-encoded rows and a table as built (%s) reads %r, the operands say %r" % (order, got_, want_), {"order": order, "got": got_, "expected": want_}, ("cat-replaced", order, tuple(want_)))
        ctx.count("construction_from_columns")

    for i in range(ctx.share(ctx.pick(6000, 320000))):
        ctx.run_case(program, {"seed": rng.randrange(2 ** 40)})
    for i in range(ctx.share(ctx.pick(400, 30000))):
        ctx.run_case(construction_from_columns, {"seed": rng.randrange(2 ** 40)})
    if ctx.shard == 0:
        ctx.run_case(construction, {"seed": 1})
    ctx.sample({"type": "Bed6", "rows": [["chr1", 3, 9, "a", 5, "+"], ["chr2", 0, 4, "b", 0, "-"]], "program": [["mask", [True, False]], ["concat", [["chrX", 1, 2, "c", 1, "+"]]], "sort_by start", "pandas"]})
    ctx.floor("judged:table.slice", ctx.pick(50, 1000))
    ctx.floor("judged:table.pandas", ctx.pick(20, 500))
    ctx.floor("judged:equal-lengths", ctx.pick(500, 10000))
    ctx.floor("blind_steps", ctx.pick(200, 4000))       # the un-decoded / lazy-view variants must actually have run


def replay(ctx, w):
    pass
