"""C08 — interval-set operations equal their per-base definitions.

Boundary monitor against the dense per-base model (R3): coverage[a:b] += 1 and functions of it.  Exhaustive for small
contigs (all interval multisets, every order), sampled for larger ones.  Operands are snapshot-compared (M7).
"""
import itertools
import random

import numpy as np

RULE = ("exhaustive: contig size S<=5 (6 thorough), every ordered sequence of <=3 half-open intervals (nested, duplicated, touching, at 0 and at S, empty set) "
        "for pileup/mask/merge (distances 0..S, input sorted on start as documented)/sort/clip/extend_to_size(+/-); every pair of ordered sequences of <=2 intervals "
        "for S<=4 for count_overlap/intersect/unique_intersect/jaccard/forbes; sampled S<=200 with <=40 intervals; "
        "distinct = (operation, contig size, interval sequence(s), parameters); non-trivial = >= 2 intervals involved")
ASSUMPTIONS = ["per-base coverage arrays are the reference (R3)",
               "count_overlap/intersect on multisets: any value inside [|mask_a & mask_b|, sum cov_a*cov_b] is accepted (exact when each operand is internally disjoint)",
               "documented preconditions honoured: merge_intervals input sorted on start; jaccard/forbes operands sorted"]
EXHAUSTIVE_CORE = "all ordered sequences of <=3 intervals on contigs of size <=S; all pairs of <=2-interval sequences for S<=4"


def preload():
    import bionumpy  # noqa
    import bionumpy.arithmetics.intervals, bionumpy.arithmetics.similarity_measures, bionumpy.genomic_data.geometry  # noqa


def cov(ivs, S):
    c = np.zeros(S, dtype=int)
    for a, b in ivs:
        c[a:b] += 1
    return c


def runs(mask):
    out, start = [], None
    for i, v in enumerate(list(mask) + [False]):
        if v and start is None:
            start = i
        elif not v and start is not None:
            out.append((start, i))
            start = None
    return out


def merge_model(ivs, d):
    out = []
    for a, b in sorted(ivs, key=lambda t: t[0]):
        if out and a - out[-1][1] <= d:
            out[-1][1] = max(out[-1][1], b)
        else:
            out.append([a, b])
    return [tuple(x) for x in out]


def disjoint(ivs):
    s = sorted(ivs)
    return all(s[i][1] <= s[i + 1][0] for i in range(len(s) - 1))


def run(ctx):
    import bionumpy as bnp
    from bionumpy.datatypes import Interval, StrandedInterval
    from bionumpy.arithmetics import intervals as iv_mod
    from bionumpy.arithmetics import get_pileup, get_boolean_mask, merge_intervals, sort_intervals, count_overlap, intersect, unique_intersect, jaccard, forbes
    from bionumpy.genomic_data.geometry import Geometry
    from bnpmon.util import lazy_selection
    rng = ctx.rng

    vrng = random.Random(ctx.seed * 977 + ctx.shard)
    built = {}

    def table(ivs, chrom="chr1", strands=None):
        def build(rows):
            starts = np.array([r[0] for r in rows], dtype=int)
            stops = np.array([r[1] for r in rows], dtype=int)
            if strands is None:
                return Interval([chrom] * len(rows), starts, stops)
            return StrandedInterval([chrom] * len(rows), starts, stops, [r[2] for r in rows])
        rows = [tuple(x) for x in ivs] if strands is None else [(a, b, st) for (a, b), st in zip(ivs, strands)]
        if vrng.random() < 0.3:
            # the operand is a lazy row selection of a bigger table (what a filter or a sort hands on), not a freshly built table
            t, _ = lazy_selection(build, rows, vrng, lambda: (0, 1) if strands is None else (0, 1, "+"))
            ctx.count("lazy_selection_operands")
        else:
            t = build(rows)
        built[id(t)] = (t, ([r[0] for r in rows], [r[1] for r in rows], [chrom] * len(rows)))
        if len(built) > 6:
            built.pop(next(iter(built)))
        return t

    def snap(t):
        # the snapshot taken BEFORE an operation comes from the values the table was built from: reading the table would flatten a lazy selection
        if id(t) in built and built[id(t)][0] is t and not getattr(snap, "after", False):
            return built[id(t)][1]
        return (np.asarray(t.start).tolist(), np.asarray(t.stop).tolist(), t.chromosome.tolist())

    def unchanged(t, before, op, case):
        now = (np.asarray(t.start).tolist(), np.asarray(t.stop).tolist(), t.chromosome.tolist())
        if now != before:
            ctx.violation("operand-mutated:%s" % op, "%s changed its operand" % op, dict(case, before=before, after=now))

    def single(case):
        S, ivs = case["S"], [tuple(x) for x in case["ivs"]]
        nt = (S, tuple(ivs)) if len(ivs) >= 2 else None
        c = cov(ivs, S)
        t = table(ivs)
        before = snap(t)
        # pileup
        got = np.asarray(get_pileup(t, S).to_array()).tolist()
        ctx.check("pileup", got == c.tolist(), "get_pileup/coverage", "pileup %r != coverage %r" % (got, c.tolist()), dict(case, got=got, expected=c.tolist()), nt)
        unchanged(t, before, "get_pileup", case)
        # the pileup routine of the bedGraph module (same definition: number of intervals covering each base)
        from bionumpy.arithmetics.bedgraph import get_pileup as bedgraph_pileup
        try:
            got = np.asarray(bedgraph_pileup(t, S).to_array()).tolist()
        except Exception as e:
            from bnpmon.ctx import originates_in_library
            if not originates_in_library(e):
                raise
            got = "raised %s" % type(e).__name__
        ctx.check("pileup", got == c.tolist(), "bedgraph.get_pileup/coverage", "bedgraph.get_pileup %r != coverage %r" % (got, c.tolist()), dict(case, got=got, expected=c.tolist()), nt and (nt, "bg"))
        # mask
        got = np.asarray(get_boolean_mask(t, S).to_array()).astype(bool).tolist()
        ctx.check("mask", got == (c > 0).tolist(), "get_boolean_mask/coverage>0", "mask %r != coverage>0 %r" % (got, (c > 0).tolist()), dict(case, got=got), nt)
        unchanged(t, before, "get_boolean_mask", case)
        # the same through the Geometry object of a one-contig genome (its own implementations of pileup, mask, merge, sort, all-vs-all Jaccard)
        if ivs and vrng.random() < 0.35:
            geo = Geometry({"chr1": S})
            s_g = sorted(ivs)
            got = np.asarray(geo.get_pileup(table(s_g)).to_dict()["chr1"]).tolist()
            ctx.check("pileup", got == c.tolist(), "Geometry.get_pileup/coverage", "Geometry pileup %r != coverage %r" % (got, c.tolist()), dict(case, got=got, expected=c.tolist()), nt and (nt, "geo"))
            got = np.asarray(geo.get_mask(table(s_g)).to_dict()["chr1"]).astype(bool).tolist()
            ctx.check("mask", got == (c > 0).tolist(), "Geometry.get_mask/coverage>0", "Geometry mask %r != coverage>0" % (got,), dict(case, got=got), nt and (nt, "geo"))
            d_ = case["distances"][0]
            mg = geo.merge_intervals(table(s_g), d_)
            got = list(zip(np.asarray(mg.start).tolist(), np.asarray(mg.stop).tolist()))
            ctx.check("merge", got == merge_model(s_g, d_), "Geometry.merge_intervals/runs:d%s" % ("=0" if d_ == 0 else ">0"), "Geometry merge(d=%d) of %r gave %r" % (d_, s_g, got), dict(case, d=d_, got=got), nt and (nt, "geo", d_))
            sh_ = list(ivs)
            vrng.shuffle(sh_)
            so = geo.sort(table(sh_))
            got = list(zip(np.asarray(so.start).tolist(), np.asarray(so.stop).tolist()))
            ctx.check("sort", sorted(got) == sorted(ivs) and all(a[0] <= b[0] for a, b in zip(got, got[1:])), "Geometry.sort/order(start)", "Geometry.sort of %r gave %r" % (sh_, got), dict(case, got=got), nt and (nt, "geosort"))
            if len(ivs) >= 2:
                halves = [sorted(ivs[:len(ivs) // 2]), sorted(ivs[len(ivs) // 2:]), sorted(ivs)]
                mat = np.asarray(geo.jaccard_all_vs_all([table(h) for h in halves]))
                covs = [cov(h, S) > 0 for h in halves]
                expm = [[(0.0 if i == j else ((covs[i] & covs[j]).sum() / max(1, (covs[i] | covs[j]).sum()))) for j in range(3)] for i in range(3)]
                ctx.check("jaccard", bool(np.allclose(mat, np.array(expm), atol=1e-12)), "Geometry.jaccard_all_vs_all/values", "all-vs-all Jaccard %r, per-base model %r" % (mat.tolist(), expm), dict(case, got=mat.tolist(), expected=expm), nt and (nt, "geojac"))
        # merge (sorted input as documented)
        if ivs:
            s_ivs = sorted(ivs, key=lambda x: x[0])
            if case.get("stable_sorted", True):
                s_ivs = sorted(ivs, key=lambda x: x[0])
            for d in case["distances"]:
                ts = table(s_ivs)
                b2 = snap(ts)
                m = merge_intervals(ts, d) if d else merge_intervals(ts)
                got = list(zip(np.asarray(m.start).tolist(), np.asarray(m.stop).tolist()))
                exp = merge_model(s_ivs, d)
                ctx.check("merge", got == exp, "merge_intervals/runs:d%s" % ("=0" if d == 0 else ">0"), "merge(d=%d) of %r gave %r expected %r" % (d, s_ivs, got, exp), dict(case, d=d, got=got, expected=exp), (S, tuple(s_ivs), d) if len(ivs) >= 2 else None)
                if d == 0:
                    ctx.check("merge", got == runs(c > 0) or not ivs, "merge_intervals/maximal-runs-of-union", "merge(0) is not the maximal runs of the union", dict(case, got=got, expected=runs(c > 0)), None)
                unchanged(ts, b2, "merge_intervals", case)
        # clip: shift intervals out of the contig first
        if ivs:
            sh = case["shift"]
            shifted = [(a - sh, b + sh) for a, b in ivs]
            tt = table(shifted)
            b3 = snap(tt)
            cl = iv_mod.clip(tt, S)
            got = list(zip(np.asarray(cl.start).tolist(), np.asarray(cl.stop).tolist()))
            exp = [(max(0, a), min(S, b)) for a, b in shifted]
            ctx.check("clip", got == exp, "clip/inside-contig", "clip gave %r expected %r" % (got, exp), dict(case, got=got, expected=exp), nt)
            unchanged(tt, b3, "clip", case)
            if vrng.random() < 0.15:
                # the same through a table read (lazily) from a BED file whose coordinates were widened with bnp.replace before clipping
                pth = ctx.path("c08.bed")
                with open(pth, "w") as f:
                    for a, b in ivs:
                        f.write("chr1\t%d\t%d\n" % (a + sh, b + sh))
                ft = bnp.open(pth).read()
                wide = bnp.replace(ft, start=np.asarray(ft.start) - 2 * sh, stop=np.asarray(ft.stop))
                for route, fn in (("arithmetics", lambda: iv_mod.clip(wide, S)), ("geometry", lambda: Geometry({"chr1": S}).clip(wide))):
                    cl2 = fn()
                    got2 = list(zip(np.asarray(cl2.start).tolist(), np.asarray(cl2.stop).tolist()))
                    ctx.check("clip", got2 == exp, "clip/inside-contig:table-read-from-file-then-widened:%s" % route, "clip of a widened file-backed table gave %r expected %r" % (got2, exp), dict(case, got=got2, expected=exp, route=route), nt)
            # extend_to_size with strands
            strands = case["strands"][:len(ivs)]
            st = table(ivs, strands=strands)
            b4 = (np.asarray(st.start).tolist(), np.asarray(st.stop).tolist())
            for L in case["frag"]:
                e = iv_mod.extend_to_size(st, L, S)
                got = list(zip(np.asarray(e.start).tolist(), np.asarray(e.stop).tolist()))
                exp = [((a, min(a + L, S)) if s == "+" else (max(b - L, 0), b)) for (a, b), s in zip(ivs, strands)]
                ctx.check("extend_to_size", got == exp, "extend_to_size/strand-aware", "extend_to_size(%d) gave %r expected %r" % (L, got, exp), dict(case, L=L, got=got, expected=exp), (S, tuple(ivs), tuple(strands), L))
                inside = all(0 <= a <= b <= S for a, b in got)
                ctx.check("extend_to_size", inside, "extend_to_size/outside-contig", "extended interval outside the contig: %r" % got, dict(case, L=L, got=got), None)
            if (np.asarray(st.start).tolist(), np.asarray(st.stop).tolist()) != b4:
                ctx.violation("operand-mutated:extend_to_size", "extend_to_size changed its operand", case)

    def sorting(case):
        rows = [tuple(r) for r in case["rows"]]
        for mode in ("str", "stringencoding"):
            chrom = [r[0] for r in rows]
            if mode == "stringencoding":
                from bionumpy.encodings.string_encodings import StringEncoding
                labels = sorted(set(chrom))
                chrom = bnp.as_encoded_array(chrom, StringEncoding(labels))
            t = Interval(chrom, np.array([r[1] for r in rows]), np.array([r[2] for r in rows]))
            s = sort_intervals(t)
            if mode == "stringencoding":
                names = [labels[i] for i in np.asarray(s.chromosome.raw()).tolist()]   # (tolist() of a StringEncoding array is not C08's business)
            else:
                names = [str(x) for x in s.chromosome.tolist()]
            got = list(zip(names, np.asarray(s.start).tolist(), np.asarray(s.stop).tolist()))
            exp = sorted(rows)
            ok_perm = sorted(got) == exp
            ctx.check("sort", ok_perm, "sort_intervals/not-a-permutation:%s" % mode, "sorted rows are not a permutation of the input", dict(case, got=got), (tuple(rows), mode))
            ctx.check("sort", got == exp, "sort_intervals/order(chromosome,start,stop):%s" % mode, "sort gave %r expected %r" % (got, exp), dict(case, mode=mode, got=got, expected=exp), (tuple(rows), mode, 1))

    def pair(case):
        S, A, B = case["S"], [tuple(x) for x in case["a"]], [tuple(x) for x in case["b"]]
        ca, cb = cov(A, S), cov(B, S)
        ma, mb = ca > 0, cb > 0
        nt = (S, tuple(A), tuple(B)) if len(A) + len(B) >= 2 else None
        both_disjoint = disjoint(A) and disjoint(B)
        tag = "disjoint-operands" if both_disjoint else "self-overlapping-operand"
        ta, tb = table(A), table(B)
        sa, sb = snap(ta), snap(tb)
        lo, hi = int((ma & mb).sum()), int((ca * cb).sum())
        if A or B:
            got = int(count_overlap(ta, tb))
            ctx.check("count_overlap", lo <= got <= hi, "count_overlap/outside-envelope:%s" % tag, "count_overlap(%r,%r)=%d, per-base envelope [%d,%d]" % (A, B, got, lo, hi), dict(case, got=got, envelope=[lo, hi]), nt)
            r = intersect(ta, tb)
            cr = cov(list(zip(np.asarray(r.start).tolist(), np.asarray(r.stop).tolist())), S)
            ok = bool(np.all(cr >= (ma & mb)) and np.all(cr <= ca * cb))
            ctx.check("intersect", ok, "intersect/outside-envelope:%s" % tag, "intersect(%r,%r) covers %r, envelope [%r,%r]" % (A, B, cr.tolist(), (ma & mb).astype(int).tolist(), (ca * cb).tolist()),
                      dict(case, got=cr.tolist()), nt)
        if A:
            u = unique_intersect(ta, tb, S)
            got = list(zip(np.asarray(u.start).tolist(), np.asarray(u.stop).tolist()))
            exp = [(a, b) for a, b in A if mb[a:b].any()]
            ctx.check("unique_intersect", got == exp, "unique_intersect/entries-of-a-overlapping-b", "unique_intersect(%r,%r) gave %r expected %r" % (A, B, got, exp), dict(case, got=got, expected=exp), nt)
        unchanged(ta, sa, "pair-ops", case)
        unchanged(tb, sb, "pair-ops", case)
        # Jaccard / Forbes need sorted operands; skip zero denominators
        sA, sB = sorted(A), sorted(B)
        a_ = int((ma & mb).sum()); b_ = int((ma & ~mb).sum()); c_ = int((~ma & mb).sum()); d_ = int((~ma & ~mb).sum())
        N = a_ + b_ + c_ + d_
        if A and B and N - d_ > 0:
            for route in ("arithmetics", "geometry"):
                if route == "arithmetics":
                    got = jaccard({"chr1": S}, table(sA), table(sB))
                else:
                    got = Geometry({"chr1": S}).jaccard(table(sA), table(sB))
                exp = a_ / (N - d_)
                ctx.check("jaccard", abs(got - exp) < 1e-12, "jaccard/value:%s" % route, "jaccard(%r,%r)=%r expected %r" % (sA, sB, got, exp), dict(case, got=got, expected=exp, route=route), nt)
            if (a_ + b_) * (a_ + c_) > 0:
                got = forbes({"chr1": S}, table(sA), table(sB))
                exp = a_ * N / ((a_ + b_) * (a_ + c_))
                ctx.check("forbes", abs(got - exp) < 1e-9, "forbes/value", "forbes(%r,%r)=%r expected %r" % (sA, sB, got, exp), dict(case, got=got, expected=exp), nt)

    # ---- exhaustive single-set cases -----------------------------------------------------------
    Smax = ctx.pick(5, 6)
    cases = []
    for S in range(1, Smax + 1):
        all_iv = [(a, b) for a in range(S) for b in range(a + 1, S + 1)]
        for n in range(0, 4):
            for seq in itertools.product(all_iv, repeat=n):
                cases.append((S, seq))
    gen = random.Random(11)
    for idx, (S, seq) in enumerate(cases):
        if idx % ctx.nshards != ctx.shard:
            continue
        ctx.run_case(single, {"S": S, "ivs": list(seq), "distances": list(range(0, S + 1)) if len(seq) <= 2 else [0, 1, gen.randint(0, S)], "shift": gen.randint(0, 2),
                              "strands": [gen.choice("+-") for _ in range(3)], "frag": [1, gen.randint(1, S + 1)]})
    ctx.sample({"S": 3, "ivs": [[0, 2], [1, 3], [1, 3]], "ops": "pileup, mask, merge(d=0..S), clip, extend_to_size"})
    # ---- exhaustive pairs -----------------------------------------------------------------------
    pcases = []
    for S in range(1, 5):
        all_iv = [(a, b) for a in range(S) for b in range(a + 1, S + 1)]
        seqs = [seq for n in range(0, 3) for seq in itertools.product(all_iv, repeat=n)]
        for A in seqs:
            for B in seqs:
                pcases.append((S, A, B))
    for idx, (S, A, B) in enumerate(pcases):
        if idx % ctx.nshards != ctx.shard:
            continue
        ctx.run_case(pair, {"S": S, "a": list(A), "b": list(B)})
    # ---- sampled larger ------------------------------------------------------------------------
    for _ in range(ctx.share(ctx.pick(400, 40000))):
        S = rng.randint(7, 200)
        def rnd(n):
            out = []
            for _ in range(n):
                a = rng.randint(0, S - 1)
                out.append((a, min(S, a + rng.randint(1, max(1, S // 4)))))
            return out
        ivs = rnd(rng.randint(0, 40))
        if rng.random() < 0.3 and ivs:
            ivs[0] = (0, ivs[0][1]); ivs[-1] = (ivs[-1][0], S)
        ctx.run_case(single, {"S": S, "ivs": ivs, "distances": [0, rng.randint(1, 10)], "shift": rng.randint(0, 5), "strands": [rng.choice("+-") for _ in ivs] or ["+"], "frag": [rng.randint(1, S + 5)]})
        def rnd_disjoint(n):
            pts = sorted(rng.sample(range(S + 1), min(2 * n, S + 1) // 2 * 2))
            return [(pts[i], pts[i + 1]) for i in range(0, len(pts), 2)]
        A = rnd_disjoint(rng.randint(0, 10)) if rng.random() < 0.7 else rnd(rng.randint(0, 6))
        B = rnd_disjoint(rng.randint(0, 10)) if rng.random() < 0.7 else rnd(rng.randint(0, 6))
        rng.shuffle(A)
        ctx.run_case(pair, {"S": S, "a": A, "b": B})
        rows = [(rng.choice(["chr1", "chr2", "chr10", "chrX"]), rng.randint(0, 20), rng.randint(21, 30)) for _ in range(rng.randint(0, 8))]
        if rows and rng.random() < 0.5:
            rows.append((rows[0][0], rows[0][1], rows[0][2] - 1 if rows[0][2] > 21 else 30))
            rng.shuffle(rows)
        if rows:
            ctx.run_case(sorting, {"rows": rows})
    # ---- chromosome-scale coordinates (no dense arrays: run-length results against interval arithmetic in Python ints) -------------
    def big(case):
        r = random.Random(case["seed"])
        S = r.choice([250_000_000, 2 ** 31 - 1, 2 ** 31 + 5, 3_100_000_000])
        n = r.randint(1, 14)
        ivs = []
        for _ in range(n):
            a = r.randrange(0, S - 1)
            b = min(S, a + r.choice([1, 1000, 10 ** 7, 2 * 10 ** 8, S]))
            ivs.append((a, b))
        if r.random() < 0.5:
            ivs += [(0, S)] * r.randint(1, 12)          # deep and long: run length x depth beyond 2**31
        ivs.sort()
        t = table(ivs)
        total = sum(b - a for a, b in ivs)
        union = sum(b - a for a, b in merge_model(ivs, 0))
        wit = {"S": S, "ivs": ivs[:20], "seed": case["seed"]}
        p = get_pileup(t, S)
        got = int(np.sum(p))
        ctx.check("pileup", got == total, "get_pileup/total-coverage:chromosome-scale", "sum of the pileup of %d intervals on a contig of %d is %d, the interval lengths add up to %d" % (len(ivs), S, got, total), dict(wit, got=got, expected=total), ("big", case["seed"], "p"))
        got = int(np.sum(get_boolean_mask(t, S)))
        ctx.check("mask", got == union, "get_boolean_mask/covered-bases:chromosome-scale", "mask covers %d bases, union of the intervals has %d" % (got, union), dict(wit, got=got, expected=union), ("big", case["seed"], "m"))
        m = merge_intervals(table(ivs))
        got = list(zip(np.asarray(m.start).tolist(), np.asarray(m.stop).tolist()))
        ctx.check("merge", got == merge_model(ivs, 0), "merge_intervals/runs:chromosome-scale", "merge of %r gave %r" % (ivs[:4], got[:4]), dict(wit, got=got[:10]), ("big", case["seed"], "g"))
        shifted = [(a - 7, b + 7) for a, b in ivs]
        cl = iv_mod.clip(table(shifted), S)
        got = list(zip(np.asarray(cl.start).tolist(), np.asarray(cl.stop).tolist()))
        ctx.check("clip", got == [(max(0, a), min(S, b)) for a, b in shifted], "clip/inside-contig:chromosome-scale", "clip gave %r" % (got[:4],), dict(wit, got=got[:10]), ("big", case["seed"], "c"))
        B = [(r.randrange(0, S - 1), 0) for _ in range(3)]
        B = sorted((a, min(S, a + r.choice([1, 10 ** 6, 10 ** 9]))) for a, _ in B)
        u = unique_intersect(table(ivs), table(B), S)
        got = list(zip(np.asarray(u.start).tolist(), np.asarray(u.stop).tolist()))
        exp = [(a, b) for a, b in ivs if any(a < d and c < b for c, d in B)]
        ctx.check("unique_intersect", sorted(got) == sorted(exp), "unique_intersect/entries-of-a-overlapping-b:chromosome-scale", "unique_intersect gave %d entries, %d overlap b" % (len(got), len(exp)), dict(wit, b=B, got=got[:10]), ("big", case["seed"], "u"))
    for i in range(ctx.pick(3, 40)):
        ctx.run_case(big, {"seed": ctx.seed * 7919 + ctx.shard * 101 + i})

    # ---- Jaccard / Forbes over several contigs (each set may have no interval on some contigs, first, middle or last) -----------------
    def multi(case):
        r = random.Random(case["seed"])
        names = r.choice([["chr1", "chr2", "chr3", "chr4"], ["chr2", "chr10", "chr1", "chrX"], ["chrX", "chrM", "chr9", "chr10"]])[:r.randint(2, 4)]      # contig order need not be the sorted order of the names
        sizes = {n: r.randint(3, 30) for n in names}
        def draw():
            rows = []
            for n in names:
                if r.random() < 0.6:
                    pts = sorted(r.sample(range(sizes[n] + 1), min(2 * r.randint(1, 3), sizes[n] + 1) // 2 * 2))
                    rows += [(n, pts[i], pts[i + 1]) for i in range(0, len(pts), 2)]
            return rows
        A, B = draw(), draw()
        if not A or not B:
            return
        mk = lambda rows: Interval([x[0] for x in rows], np.array([x[1] for x in rows], dtype=int), np.array([x[2] for x in rows], dtype=int))
        dense = {}
        for tag, rows in (("a", A), ("b", B)):
            for n in names:
                dense[tag, n] = np.zeros(sizes[n], dtype=bool)
            for n, a, b in rows:
                dense[tag, n][a:b] = True
        ma = np.concatenate([dense["a", n] for n in names]); mb = np.concatenate([dense["b", n] for n in names])
        a_ = int((ma & mb).sum()); b_ = int((ma & ~mb).sum()); c_ = int((~ma & mb).sum()); d_ = int((~ma & ~mb).sum())
        N = a_ + b_ + c_ + d_
        wit = {"sizes": sizes, "a": A, "b": B, "seed": case["seed"]}
        nt = (tuple(sizes.items()), tuple(A), tuple(B))
        # the other accepted way of handing the intervals over: a dict {contig: table}, for one set or both
        as_dict = lambda rows: {n: mk([x for x in rows if x[0] == n]) for n in names if any(x[0] == n for x in rows)}
        for way, (xa, xb) in (("a-dict", (as_dict(A), mk(B))), ("both-dicts", (as_dict(A), as_dict(B)))):
            if N - d_ > 0 and set(as_dict(A)) == set(names) and (way == "a-dict" or set(as_dict(B)) == set(names)):
                try:
                    got = jaccard(sizes, xa, xb)
                except Exception as e:
                    from bnpmon.ctx import originates_in_library
                    if not originates_in_library(e):
                        raise
                    got = None
                    ctx.check("jaccard", False, "jaccard/raised:dict-of-tables:%s" % type(e).__name__, "jaccard with %s raised %s" % (way, type(e).__name__), dict(wit, way=way), (nt, way))
                if got is not None:
                    ctx.check("jaccard", abs(got - a_ / (N - d_)) < 1e-12, "jaccard/value:several-contigs:dict-of-tables", "jaccard (%s) over contigs %r = %r, per-base model %r" % (way, names, got, a_ / (N - d_)), dict(wit, way=way, got=got, expected=a_ / (N - d_)), (nt, way))
        # a Geometry call leaves the caller's table as it was (column types and encodings included), so that the table can go to another genome afterwards
        from bionumpy.genomic_data.geometry import Geometry as _Geo
        tA = mk(sorted(A, key=lambda x: (names.index(x[0]), x[1], x[2])))
        col_state = lambda t_: (type(t_.chromosome).__name__, repr(getattr(t_.chromosome, "encoding", None))[:60], [str(x) for x in t_.chromosome.tolist()], np.asarray(t_.start).tolist(), np.asarray(t_.stop).tolist())
        st0 = col_state(tA)
        try:
            _Geo(sizes).merge_intervals(tA, r.choice([0, 2]))
        except Exception as e:
            from bnpmon.ctx import originates_in_library
            if not originates_in_library(e) and type(e).__name__ != "GenomeError":
                raise
        st1 = col_state(tA)
        ctx.check("merge", st0 == st1, "operand-mutated:Geometry.merge_intervals:%s" % ("chromosome-column" if st0[:3] != st1[:3] else "coordinates"), "Geometry.merge_intervals changed its argument: chromosome column %r -> %r" % (st0[:2], st1[:2]), dict(wit, before=str(st0)[:300], after=str(st1)[:300]), (nt, "geo-arg"))
        if st0 == st1:
            other_order = {n: sizes[n] for n in reversed(names)}
            try:
                m2_ = _Geo(other_order).merge_intervals(mk(sorted(A, key=lambda x: (list(other_order).index(x[0]), x[1], x[2]))), 0)
                ok2 = True
            except Exception:
                ok2 = None      # a refusal for this order is not what is judged here
        # merge_intervals over the table grouped per chromosome
        from bionumpy.streams import groupby as _groupby
        dgap = r.choice([0, 0, 2])
        got_m = {}
        for nm_, mg_ in merge_intervals(_groupby(mk(sorted(A, key=lambda x: (names.index(x[0]), x[1], x[2]))), "chromosome"), distance=dgap):
            got_m[str(nm_)] = list(zip(np.asarray(mg_.start).tolist(), np.asarray(mg_.stop).tolist()))
        exp_m = {}
        for n in names:
            rows_n = sorted((x[1], x[2]) for x in A if x[0] == n)
            if rows_n:
                out_ = [list(rows_n[0])]
                for a1, b1 in rows_n[1:]:
                    if a1 <= out_[-1][1] + dgap:
                        out_[-1][1] = max(out_[-1][1], b1)
                    else:
                        out_.append([a1, b1])
                exp_m[n] = [tuple(x) for x in out_]
        ctx.check("merge", got_m == exp_m, "merge_intervals/grouped-per-chromosome", "merge_intervals(groupby(table, 'chromosome'), distance=%d) gave %r, per-chromosome model %r" % (dgap, got_m, exp_m), dict(wit, got=got_m, expected=exp_m, distance=dgap), (nt, "grouped", dgap))
        if N - d_ > 0:
            got = jaccard(sizes, mk(A), mk(B))
            ctx.check("jaccard", abs(got - a_ / (N - d_)) < 1e-12, "jaccard/value:several-contigs", "jaccard over %d contigs = %r, per-base model %r" % (len(names), got, a_ / (N - d_)), dict(wit, got=got, expected=a_ / (N - d_)), nt)
        if (a_ + b_) * (a_ + c_) > 0:
            got = forbes(sizes, mk(A), mk(B))
            exp = a_ * N / ((a_ + b_) * (a_ + c_))
            ctx.check("forbes", abs(got - exp) < 1e-9, "forbes/value:several-contigs", "forbes over %d contigs = %r, per-base model %r" % (len(names), got, exp), dict(wit, got=got, expected=exp), nt)
    for i in range(ctx.share(ctx.pick(800, 20000))):
        ctx.run_case(multi, {"seed": rng.randrange(2 ** 40)})

    ctx.floor("judged:pileup", ctx.pick(200, 3000))
    ctx.floor("judged:merge", ctx.pick(200, 3000))
    ctx.floor("judged:count_overlap", ctx.pick(100, 3000))
    ctx.floor("judged:unique_intersect", ctx.pick(100, 3000))
    ctx.floor("judged:jaccard", ctx.pick(50, 1000))
    ctx.floor("judged:sort", ctx.pick(10, 1000))
    ctx.floor("lazy_selection_operands", ctx.pick(100, 1000))       # the un-decoded / lazy-view variants must actually have run


def replay(ctx, w):
    pass
