"""C10 — genome-wide operations respect chromosome boundaries.

Per-chromosome decomposition monitor: for every chromosome c, genomewide_op(all entries)[c] must equal the single-contig
model applied to c's entries alone; coordinate conversion must be a bijection; results for c must not change when the
entries of other chromosomes are replaced (metamorphic independence).
"""
import random

import numpy as np

RULE = ("genomes of 1..4 chromosomes (sizes 1..S), names with prefix relations (chr1, chr10, chr1_alt, chrUn_x); sorted interval/location sets per chromosome emphasising "
        "intervals that end exactly at a chromosome end followed by intervals starting at 0 of the next, and chromosomes without entries; operations: get_mask, get_pileup, "
        "merged(0), merged(d), clip, extended_to_size, sorted, get_location(start|stop|center), get_windows(flank|window_size), GenomicArray[intervals] (+/- strand), "
        "GenomicSequence[intervals], Geometry.*, GlobalOffset round trips for ALL valid positions/intervals; one evaluation = one (genome, entries, operation) compared per chromosome; "
        "distinct = (genome, entries, operation, parameters); non-trivial = >=2 chromosomes with entries or an entry touching a chromosome boundary")
ASSUMPTIONS = ["single-contig reference = dense per-base model (R3) applied to the chromosome's own entries",
               "inputs are inside their chromosome unless the operation under test is clip/get_windows; merged() inputs are sorted (documented precondition)"]
EXHAUSTIVE_CORE = "GlobalOffset: every valid position and every valid interval of each generated genome (sizes <= 8)"

COMP = {"A": "T", "C": "G", "G": "C", "T": "A", "N": "N"}


def preload():
    import bionumpy  # noqa
    import bionumpy.genomic_data.genomic_intervals, bionumpy.genomic_data.geometry, bionumpy.genomic_data.genomic_sequence, bionumpy.genomic_data.global_offset  # noqa


def merge_model(ivs, d):
    out = []
    for a, b in sorted(ivs, key=lambda t: t[0]):
        if out and a - out[-1][1] <= d:
            out[-1][1] = max(out[-1][1], b)
        else:
            out.append([a, b])
    return [tuple(x) for x in out]


def gen_genome(r, maxsize):
    n = r.choice([1, 2, 2, 3, 3, 4])
    names = r.sample(["chr1", "chr10", "chr1_alt", "chrUn_x", "chr2", "chrX"], n)
    return {nm: r.randint(1, maxsize) for nm in names}


def gen_intervals(r, sizes, hug=True):
    names = list(sizes)
    out = []
    for i, nm in enumerate(names):
        S = sizes[nm]
        k = r.choice([0, 0, 1, 2, 3, 5])
        ivs = []
        for _ in range(k):
            a = r.randint(0, S - 1)
            ivs.append((a, r.randint(a + 1, S)))
        if hug and r.random() < 0.5:
            ivs.append((r.randint(0, S - 1), S))       # ends exactly at the chromosome end
        if hug and r.random() < 0.5:
            ivs.append((0, r.randint(1, S)))           # starts at position 0
        ivs.sort()
        out += [(nm, a, b) for a, b in ivs]
    return out


def run(ctx):
    import bionumpy as bnp
    from bionumpy.datatypes import Interval, Bed6, LocationEntry, StrandedInterval, BedGraph
    from bionumpy.genomic_data.geometry import Geometry
    from bionumpy.genomic_data.genomic_sequence import GenomicSequence
    from bnpmon.util import text_rows, lazy_selection
    rng = ctx.rng
    maxsize = ctx.pick(8, 30)

    vrng = random.Random(ctx.seed * 1009 + ctx.shard)

    def tbl(ivs, strands=None):
        def build(rws):
            ch = [x[0] for x in rws]
            a = np.array([x[1] for x in rws], dtype=int)
            b = np.array([x[2] for x in rws], dtype=int)
            if strands is None:
                return Interval(ch, a, b)
            return Bed6(ch, a, b, [x[3] for x in rws], [0] * len(rws), [x[4] for x in rws])
        rws = [tuple(x[:3]) for x in ivs] if strands is None else [tuple(x[:3]) + ("e%d" % i, st) for i, (x, st) in enumerate(zip(ivs, strands))]
        if rws and vrng.random() < 0.3:
            # a lazy row selection of a bigger table instead of a freshly built one
            filler = (rws[0][0], 0, 1) if strands is None else (rws[0][0], 0, 1, "f", "+")
            t, _ = lazy_selection(build, rws, vrng, lambda: filler)
            ctx.count("lazy_selection_operands")
            return t
        return build(rws)

    def rows(data, with_strand=False):
        from bnpmon.util import chrom_names
        ch = chrom_names(data.chromosome)
        out = list(zip(ch, np.asarray(data.start).tolist(), np.asarray(data.stop).tolist()))
        return out

    def per_chrom(rows_, names):
        d = {n: [] for n in names}
        for c, a, b in rows_:
            d.setdefault(c, []).append((a, b))
        return d

    def one(case):
        r = random.Random(case["seed"])
        sizes = gen_genome(r, maxsize)
        names = list(sizes)
        genome = bnp.Genome.from_dict(sizes)
        ivs = gen_intervals(r, sizes)
        ivs_sorted = list(ivs)
        shuffled = len(ivs) >= 2 and r.random() < 0.4
        if shuffled:
            # rows in any order (not grouped by chromosome): everything but merging takes them as they come
            r.shuffle(ivs)
            ctx.count("tables_with_rows_in_any_order")
        strands = [r.choice("+-") for _ in ivs]
        wit = {"sizes": sizes, "intervals": ivs, "strands": strands, "seed": case["seed"], "rows_in_any_order": shuffled}
        boundary = any(b == sizes[c] for c, a, b in ivs) and any(a == 0 for c, a, b in ivs)
        key = (tuple(sizes.items()), tuple(ivs))
        nt = key if (len({c for c, _, _ in ivs}) >= 2 or boundary) else None
        mine = per_chrom(ivs, names)
        if not ivs:
            return
        gi = genome.get_intervals(tbl(ivs))
        gs = genome.get_intervals(tbl(ivs, strands), stranded=True)
        gi_m = genome.get_intervals(tbl(ivs_sorted)) if shuffled else gi         # merging wants sorted input
        mine_sorted = {n: sorted(v) for n, v in mine.items()}

        def cmp_dense(name, got_dict, expf, keysuffix="", names_=None):
            bad = None
            for n in (names_ or names):
                exp = expf(n)
                g = np.asarray(got_dict[n])
                if g.shape != exp.shape or not np.array_equal(g, exp):
                    bad = (n, g.tolist(), exp.tolist())
                    break
            ctx.check(name, bad is None, "%s/per-chromosome%s" % (name, keysuffix), "%s on %s: got %r, single-contig model %r" % ((name,) + (bad or (None, None, None))), dict(wit, chrom=bad and bad[0]), nt and (nt, name))

        def cov(n):
            c = np.zeros(sizes[n], dtype=int)
            for a, b in mine[n]:
                c[a:b] += 1
            return c
        def guard(op, fn):
            """an exception escaping the library inside one operation is a violation of that operation only"""
            from bnpmon.ctx import originates_in_library, exc_site
            try:
                fn()
            except Exception as e:
                if not originates_in_library(e):
                    raise
                et, site = exc_site(e)
                ctx.evaluations += 1
                ctx.violation("%s/raised:%s@%s" % (op, et, site), "%s raised %s: %s" % (op, et, str(e)[:150]), dict(wit, op=op))
        # Geometry ignores '_' contigs by construction (default filter); it is driven with the entries of the contigs it includes
        g = Geometry(sizes)
        g_ivs = [x for x in ivs if "_" not in x[0]]
        g_strands = [s for x, s in zip(ivs, strands) if "_" not in x[0]]
        g_names = [n for n in names if "_" not in n]
        def by_name():
            # track[name] for every chromosome (and again for another genome with the same names later in the process)
            pile = gi.get_pileup()
            cmp_dense("array[chromosome-name]", {n: np.asarray(pile[n].to_array() if hasattr(pile[n], "to_array") else pile[n]) for n in names}, cov)
        guard("array[chromosome-name]", by_name)
        def dict_edited():
            # the dense arrays handed out by to_dict() belong to the caller: editing them leaves the track as it was
            pile = gi.get_pileup()
            dd = pile.to_dict()
            for n_ in names:
                a_ = np.asarray(dd[n_])
                if a_.size and a_.flags.writeable:
                    a_[:] = 99
            cmp_dense("array[chromosome-name]", pile.to_dict(), cov, ":after-the-caller-edited-the-arrays-of-to_dict")
        guard("array[chromosome-name]", dict_edited)
        guard("get_pileup", lambda: cmp_dense("get_pileup", gi.get_pileup().to_dict(), cov))
        guard("get_mask", lambda: cmp_dense("get_mask", gi.get_mask().to_dict(), lambda n: cov(n) > 0))
        if g_ivs:
            guard("Geometry.get_pileup", lambda: cmp_dense("Geometry.get_pileup", g.get_pileup(tbl(g_ivs)).to_dict(), cov, names_=g_names))
            guard("Geometry.get_mask", lambda: cmp_dense("Geometry.get_mask", g.get_mask(tbl(g_ivs)).to_dict(), lambda n: cov(n) > 0, names_=g_names))

        def cmp_rows(name, got_rows, exp_by_chrom, keysuffix="", names_=None):
            gotd = per_chrom(got_rows, names)
            order_ok = [c for c, _, _ in got_rows] == sorted([c for c, _, _ in got_rows], key=names.index)
            bad = next((n for n in (names_ or names) if gotd.get(n, []) != exp_by_chrom[n]), None)
            extra = [c for c in gotd if c not in names]
            ok = bad is None and not extra and order_ok
            ctx.check(name, ok, "%s/per-chromosome%s" % (name, keysuffix), "%s: chromosome %s got %r, single-contig model %r (genome order kept: %s)" % (name, bad, gotd.get(bad), exp_by_chrom.get(bad), order_ok),
                      dict(wit, chrom=bad, got=got_rows[:12]), nt and (nt, name, keysuffix))

        for d in (0, r.randint(1, 3)):
            exp = {n: merge_model(mine_sorted[n], d) for n in names}
            sfx = ":d=0" if d == 0 else ":d>0"
            guard("merged" + sfx, lambda: cmp_rows("merged", rows(gi_m.merged(d).get_data()) if d else rows(gi_m.merged().get_data()), exp, sfx))
            if g_ivs:
                guard("Geometry.merge_intervals" + sfx, lambda: cmp_rows("Geometry.merge_intervals", rows(g.merge_intervals(tbl([x for x in ivs_sorted if "_" not in x[0]]), d)), exp, sfx, names_=g_names))
        # sorted: shuffle then sort
        perm = list(range(len(ivs)))
        r.shuffle(perm)
        sh = [ivs[i] for i in perm]
        exp_sorted = {n: sorted(mine[n]) for n in names}
        guard("sorted", lambda: cmp_rows("sorted", rows(genome.get_intervals(tbl(sh)).sorted().get_data()), exp_sorted))
        g_sh = [x for x in sh if "_" not in x[0]]
        if g_sh:
            def geo_sort():
                got = rows(g.sort(tbl(g_sh)))
                # Geometry.sort orders by start only (ties on start keep no defined order of stops): compare as (chromosome, start) order + same multiset
                gotd = per_chrom(got, names)
                ok = all(sorted(gotd[n]) == exp_sorted[n] and [a for a, b in gotd[n]] == sorted(a for a, b in gotd[n]) for n in g_names) and [c for c, _, _ in got] == sorted([c for c, _, _ in got], key=names.index)
                ctx.check("Geometry.sort", ok, "Geometry.sort/per-chromosome", "Geometry.sort gave %r" % got[:8], dict(wit, got=got[:12]), nt and (nt, "gsort"))
            guard("Geometry.sort", geo_sort)
        # clip (entries pushed outside first)
        k = r.randint(0, 3)
        pushed = [(c, a - k, b + k) for c, a, b in ivs]
        def cmp_rowwise(name, got_rows, exp_rows):
            # a row-wise operation: row i of the result belongs to row i of the input, in whatever order the rows came
            badrow = next((i for i, (a_, b_) in enumerate(zip(got_rows, exp_rows)) if tuple(a_) != tuple(b_)), None if len(got_rows) == len(exp_rows) else min(len(got_rows), len(exp_rows)))
            ctx.check(name, badrow is None, "%s/per-chromosome" % name, "%s: row %s got %r, single-contig model %r" % (name, badrow, got_rows[badrow:badrow + 1] if badrow is not None else None, exp_rows[badrow:badrow + 1] if badrow is not None else None),
                      dict(wit, got=got_rows[:12], expected=exp_rows[:12]), nt and (nt, name))
        exp_clip = [(c, max(0, a - k), min(sizes[c], b + k)) for c, a, b in ivs]
        guard("clip", lambda: cmp_rowwise("clip", rows(replace_and_clip(genome, pushed, tbl).get_data()), exp_clip))
        g_pushed = [x for x in pushed if "_" not in x[0]]
        if g_pushed:
            guard("Geometry.clip", lambda: cmp_rowwise("Geometry.clip", rows(g.clip(tbl(g_pushed))), [x for x in exp_clip if "_" not in x[0]]))
        # extended_to_size
        L = r.randint(1, maxsize + 2)
        exp_ext = []
        for (c, a, b), s in zip(ivs, strands):
            exp_ext.append((c, a, min(a + L, sizes[c])) if s == "+" else (c, max(b - L, 0), b))
        guard("extended_to_size", lambda: cmp_rowwise("extended_to_size", rows(gs.extended_to_size(L).get_data()), exp_ext))
        if g_ivs:
            guard("Geometry.extend_to_size", lambda: cmp_rowwise("Geometry.extend_to_size", rows(g.extend_to_size(tbl(g_ivs, g_strands), L)), [x for x in exp_ext if "_" not in x[0]]))
        # a selection of an object whose pileup / mask has been computed already: the selection's results are those of the selected rows alone
        def selection_after_use():
            m = len(ivs)
            kind = r.choice(["mask", "slice", "index"])
            if kind == "mask":
                keep = [r.random() < 0.5 for _ in range(m)]
                idx = np.array(keep, dtype=bool)
                sel_rows = [x for x, k_ in zip(ivs, keep) if k_]
            elif kind == "slice":
                a_ = r.randint(0, m - 1); b_ = r.randint(a_, m)
                idx = slice(a_, b_)
                sel_rows = ivs[a_:b_]
            else:
                ii = [r.randrange(m) for _ in range(r.randint(0, 4))]
                idx = np.array(ii, dtype=int)
                sel_rows = [ivs[i] for i in ii]
            sub = gi[idx]          # gi.get_pileup() and gi.get_mask() ran above
            smine = per_chrom(sel_rows, names)

            def scov(n):
                c_ = np.zeros(sizes[n], dtype=int)
                for a_, b_ in smine[n]:
                    c_[a_:b_] += 1
                return c_
            cmp_dense("get_pileup", sub.get_pileup().to_dict(), scov, ":selection-of-an-object-used-before")
            cmp_dense("get_mask", sub.get_mask().to_dict(), lambda n: scov(n) > 0, ":selection-of-an-object-used-before")
            got = rows(sub.get_data())
            ctx.check("selection", got == [tuple(x) for x in sel_rows], "selection/rows", "intervals[%s] holds %r, the selected rows are %r" % (kind, got[:6], sel_rows[:6]), dict(wit, selection=kind), nt and (nt, "sel", kind))
            ctx.count("selections_after_use")
        guard("selection", selection_after_use)
        # locations
        for where in ("start", "stop", "center"):
            for stranded, obj in ((True, gs), (False, gi)):
                loc = obj.get_location(where)
                from bnpmon.util import chrom_names
                got = list(zip(chrom_names(loc.chromosome), np.asarray(loc.position).tolist()))
                exp = []
                for (c, a, b), s in zip(ivs, strands):
                    if where == "center":
                        p = (a + b) // 2
                    elif not stranded:
                        p = a if where == "start" else b - 1
                    else:
                        p = (a if s == "+" else b - 1) if where == "start" else (b - 1 if s == "+" else a)
                    exp.append((c, p))
                ctx.check("get_location", got == exp, "get_location/%s:%s" % (where, "stranded" if stranded else "unstranded"), "get_location(%r) gave %r expected %r" % (where, got[:6], exp[:6]),
                          dict(wit, where=where, stranded=stranded, got=got, expected=exp), nt and (nt, where, stranded))
        # windows around locations
        pos = [(c, r.randint(0, sizes[c] - 1)) for c in names for _ in range(r.randint(0, 2))]
        if pos:
            loc = genome.get_locations(LocationEntry([c for c, p in pos], np.array([p for c, p in pos], dtype=int)))
            f = r.randint(0, 4)
            w = loc.get_windows(flank=f)
            got = rows(w.get_data())
            exp = [(c, max(0, p - f), min(sizes[c], p + f + 1)) for c, p in pos]
            ctx.check("get_windows", got == exp, "get_windows/flank", "get_windows(flank=%d) gave %r expected %r" % (f, got, exp), dict(wit, positions=pos, flank=f, got=got, expected=exp), (key, tuple(pos), f))
            # locations sorted in genome order (ties and the ends of chromosomes included)
            pos2 = pos + [(c, p_) for c in names for p_ in (0, sizes[c] - 1) if r.random() < 0.5]
            r.shuffle(pos2)
            loc2 = genome.get_locations(LocationEntry([c for c, p in pos2], np.array([p for c, p in pos2], dtype=int)))
            from bnpmon.util import chrom_names as _cn
            srt = loc2.sorted()
            got = list(zip(_cn(srt.chromosome), np.asarray(srt.position).tolist()))
            exp = sorted(pos2, key=lambda t: (names.index(t[0]), t[1]))
            ctx.check("sorted", got == exp, "sorted/genome-order:locations", "locations.sorted() gave %r expected %r" % (got, exp), dict(wit, positions=pos2, got=got, expected=exp), (key, tuple(pos2), "locsort") if len(pos2) >= 2 else None)
            ctx.count("location_sorts")
            ws = r.randint(1, 7)
            got = rows(loc.get_windows(window_size=ws).get_data())
            exp = [(c, max(0, p - ws // 2), min(sizes[c], p + ws // 2 + ws % 2)) for c, p in pos]
            ctx.check("get_windows", got == exp, "get_windows/window_size", "get_windows(window_size=%d) gave %r expected %r" % (ws, got, exp), dict(wit, positions=pos, window_size=ws, got=got, expected=exp), (key, tuple(pos), ws, "ws"))
        # the same operations on intervals / locations handed over as a STREAM of chunks (grouped by chromosome in genome order, any order inside a chromosome)
        def streamed_ops():
            from bionumpy.streams import NpDataclassStream
            grouped = sorted(pushed, key=lambda t: names.index(t[0]))          # stable: the order inside a chromosome is whatever it was
            if shuffled is False:
                # also inside a chromosome: not sorted by position
                by = {n: [x for x in grouped if x[0] == n] for n in names}
                for n in names:
                    r.shuffle(by[n])
                grouped = [x for n in names for x in by[n]]
            cut = r.randint(0, len(grouped))
            mk = lambda rws: Interval([x[0] for x in rws], np.array([x[1] for x in rws], dtype=int), np.array([x[2] for x in rws], dtype=int))
            st = lambda rws: NpDataclassStream(iter([mk(p_) for p_ in (rws[:cut], rws[cut:]) if p_]), dataclass=Interval)
            cl = genome.get_intervals(st(grouped)).clip()
            got = bnp.compute((cl.start, cl.stop))
            got = list(zip(np.asarray(got[0]).tolist(), np.asarray(got[1]).tolist()))
            exp = [(max(0, a), min(sizes[c], b)) for c, a, b in grouped]
            ctx.check("clip", got == exp, "clip/per-chromosome:streamed-intervals", "clip() of streamed intervals gave %r, single-contig model %r" % (got[:6], exp[:6]), dict(wit, rows=grouped, got=got[:12], expected=exp[:12]), nt and (nt, "sclip", tuple(grouped), cut))
            # windows around streamed locations (the start of one-base intervals)
            locs = [(c, r.randint(0, sizes[c] - 1)) for c in names for _ in range(r.randint(0, 3))]
            if locs:
                rows1 = [(c, p_, p_ + 1) for c, p_ in locs]
                cut2 = r.randint(0, len(rows1))
                st2 = lambda: NpDataclassStream(iter([mk(p_) for p_ in (rows1[:cut2], rows1[cut2:]) if p_]), dataclass=Interval)
                ws = r.randint(1, 9)
                w = genome.get_intervals(st2()).get_location("start").get_windows(window_size=ws)
                g = bnp.compute((w.start, w.stop))
                g = list(zip(np.asarray(g[0]).tolist(), np.asarray(g[1]).tolist()))
                e = [(max(0, p_ - ws // 2), min(sizes[c], p_ + ws // 2 + ws % 2)) for c, p_ in locs]
                ctx.check("get_windows", g == e, "get_windows/window_size:streamed-locations", "get_windows(window_size=%d) of streamed locations gave %r expected %r" % (ws, g[:6], e[:6]), dict(wit, locations=locs, window_size=ws, got=g, expected=e), (key, tuple(locs), ws, "sws"))
                fl = r.randint(0, 4)
                w = genome.get_intervals(st2()).get_location("start").get_windows(flank=fl)
                g = bnp.compute((w.start, w.stop))
                g = list(zip(np.asarray(g[0]).tolist(), np.asarray(g[1]).tolist()))
                e = [(max(0, p_ - fl), min(sizes[c], p_ + fl + 1)) for c, p_ in locs]
                ctx.check("get_windows", g == e, "get_windows/flank:streamed-locations", "get_windows(flank=%d) of streamed locations gave %r expected %r" % (fl, g[:6], e[:6]), dict(wit, locations=locs, flank=fl, got=g, expected=e), (key, tuple(locs), fl, "sfl"))
            # two results derived from ONE streamed interval object and evaluated together: mask and pileup, each with its own chromosome sizes
            inside_rows = sorted([x for x in ivs], key=lambda t: names.index(t[0]))
            cut3 = r.randint(0, len(inside_rows))
            st3 = lambda: NpDataclassStream(iter([mk(p_) for p_ in (inside_rows[:cut3], inside_rows[cut3:]) if p_]), dataclass=Interval)
            one = genome.get_intervals(st3())
            both_ = bnp.compute((one.get_mask().get_data(), one.get_pileup().get_data()))
            def expand(dd, as_bool):
                out = {n: np.zeros(sizes[n], dtype=bool if as_bool else int) for n in names}
                from bnpmon.util import chrom_names as _cn2
                vals_ = [True] * len(dd) if not hasattr(dd, "value") else np.asarray(dd.value).tolist()
                for c_, a_, b_, v_ in zip(_cn2(dd.chromosome), np.asarray(dd.start).tolist(), np.asarray(dd.stop).tolist(), vals_):
                    if c_ in out and 0 <= a_ <= b_ <= sizes[c_]:
                        out[c_][a_:b_] = v_
                    else:
                        out.setdefault("outside", []).append((c_, a_, b_))
                return out
            gm, gp = expand(both_[0], True), expand(both_[1], False)
            okm = "outside" not in gm and all(np.array_equal(gm[n], cov(n) > 0) for n in names)
            okp = "outside" not in gp and all(np.array_equal(gp[n], cov(n)) for n in names)
            ctx.check("get_mask", okm and okp, "get_mask+get_pileup/per-chromosome:one-streamed-object-evaluated-together", "mask and pileup of one streamed interval set, computed together: mask ok %s, pileup ok %s" % (okm, okp),
                      dict(wit, rows=inside_rows, mask={k_: (v_.tolist() if hasattr(v_, "tolist") else v_) for k_, v_ in gm.items()}, pileup={k_: (v_.tolist() if hasattr(v_, "tolist") else v_) for k_, v_ in gp.items()}), nt and (nt, "mp", cut3))
            # a streamed pileup indexed by in-memory intervals (some end exactly at a chromosome end)
            under = bnp.compute(genome.get_intervals(st3()).get_pileup()[genome.get_intervals(tbl(ivs_sorted))])
            got_u = [np.asarray(x.to_array() if hasattr(x, "to_array") else x).tolist() for x in under]
            exp_u = [cov(c)[a:b].tolist() for c, a, b in ivs_sorted]
            ctx.check("array[intervals]", got_u == exp_u, "GenomicArray[intervals]/streamed-array", "values of a streamed pileup under intervals gave %r expected %r" % (got_u[:4], exp_u[:4]), dict(wit, got=got_u[:8], expected=exp_u[:8]), nt and (nt, "su"))
            # a track built from a STREAM of bedGraph tables in which some chromosome has no records
            if len(names) >= 2:
                skip = r.choice(names)
                dvals = {n: np.array([r.randint(0, 3) for _ in range(sizes[n])], dtype=int) for n in names}
                dvals[skip][:] = 0
                brow = [(n, i, i + 1, int(dvals[n][i])) for n in names if n != skip for i in range(sizes[n])]
                cut4 = r.randint(0, len(brow))
                mkb = lambda rws: BedGraph([x[0] for x in rws], np.array([x[1] for x in rws], dtype=int), np.array([x[2] for x in rws], dtype=int), np.array([x[3] for x in rws], dtype=int))
                trk = genome.get_track(NpDataclassStream(iter([mkb(p_) for p_ in (brow[:cut4], brow[cut4:]) if p_]), dataclass=BedGraph))
                gd = expand(bnp.compute(trk.get_data()), False)
                okt = "outside" not in gd and all(np.array_equal(gd[n], dvals[n]) for n in names)
                ctx.check("array[chromosome-name]", okt, "streamed-track/per-chromosome:a-chromosome-without-records", "a track streamed from a bedGraph without records on %s expands to %r" % (skip, {k_: (v_.tolist() if hasattr(v_, "tolist") else v_) for k_, v_ in gd.items()}),
                          dict(wit, skipped=skip, expected={n: dvals[n].tolist() for n in names}), nt and (nt, "strk", skip, cut4))
            ctx.count("streamed_interval_operations")
        guard("streamed-intervals", streamed_ops)
        # a table grouped by chromosome, but the chromosomes in another order than the genome's: merging gives each chromosome its own merged entries, or refuses
        if len(names) >= 2:
            other_order = list(names)
            r.shuffle(other_order)
            if other_order != names:
                regrouped = [x for n in other_order for x in ivs_sorted if x[0] == n]
                try:
                    mg = rows(genome.get_intervals(tbl(regrouped)).merged().get_data())
                except Exception as e:
                    from bnpmon.ctx import originates_in_library
                    if not originates_in_library(e) and type(e).__name__ != "GenomeError":
                        raise
                    mg = None
                    ctx.count("merged_refused_for_another_chromosome_order")
                if mg is not None:
                    expm = {n: merge_model(mine_sorted[n], 0) for n in names}
                    gotm = per_chrom(mg, names)
                    ctx.check("merged", all(gotm.get(n, []) == expm[n] for n in names), "merged/per-chromosome:chromosomes-in-another-order-than-the-genome", "merged() of a table ordered %r gave %r, single-contig model %r" % (other_order, gotm, expm),
                              dict(wit, order=other_order, got=mg[:12]), nt and (nt, "mgo", tuple(other_order)))
        # values under intervals
        dense = {n: np.array([r.randint(0, 5) for _ in range(sizes[n])], dtype=int) for n in names}
        recs = [(n, i, i + 1, int(dense[n][i])) for n in names for i in range(sizes[n])]
        track = genome.get_track(BedGraph([x[0] for x in recs], np.array([x[1] for x in recs]), np.array([x[2] for x in recs]), np.array([x[3] for x in recs])))
        for stranded, obj in ((False, gi), (True, gs)):
            got = [np.asarray(x.to_array()).tolist() for x in track[obj]]
            exp = []
            for (c, a, b), s in zip(ivs, strands):
                v = dense[c][a:b].tolist()
                exp.append(v[::-1] if (stranded and s == "-") else v)
            ctx.check("array[intervals]", got == exp, "GenomicArray[intervals]/%s" % ("stranded" if stranded else "unstranded"), "values under intervals gave %r expected %r" % (got[:4], exp[:4]),
                      dict(wit, stranded=stranded, got=got[:8], expected=exp[:8]), nt and (nt, "vals", stranded))
        # sequence under intervals
        seqs = {n: "".join(r.choice("ACGTN" if r.random() < 0.2 else "ACGT") for _ in range(sizes[n])) for n in names}
        gseq = GenomicSequence.from_dict(seqs)
        for stranded in (False, True):
            res = gseq.extract_intervals(tbl(ivs, strands), stranded=stranded)
            got = [t.upper() for t in text_rows(res)]
            exp = []
            for (c, a, b), s in zip(ivs, strands):
                t = seqs[c][a:b]
                exp.append("".join(COMP[x] for x in reversed(t)) if (stranded and s == "-") else t)
            ctx.check("sequence[intervals]", got == exp, "GenomicSequence[intervals]/%s" % ("stranded" if stranded else "unstranded"), "sequence under intervals gave %r expected %r" % (got[:4], exp[:4]),
                      dict(wit, stranded=stranded, sequences=seqs, got=got[:8], expected=exp[:8]), nt and (nt, "seq", stranded))
        # the same through an indexed FASTA on disk whose record order differs from the genome order
        # ('_' contigs, ignored by Genome.from_file, sit between the others; sort_names reorders the rest)
        def fasta_route():
            import os
            order = list(names)
            r.shuffle(order)
            path = ctx.path("g.fa")
            with open(path, "w") as f:
                for nm in order:
                    f.write(">%s\n" % nm)
                    w = r.choice([3, 7, 60])
                    for i in range(0, len(seqs[nm]), w):
                        f.write(seqs[nm][i:i + w] + "\n")
            sort_names = r.random() < 0.5
            gf = bnp.Genome.from_file(path, sort_names=sort_names)
            gorder = list(gf.get_genome_context().chrom_sizes)
            q = [(x, s) for x, s in zip(ivs, strands) if x[0] in gorder]
            q.sort(key=lambda t: (gorder.index(t[0][0]), t[0][1], t[0][2]))
            unsorted_q = len(q) >= 3 and r.random() < 0.5
            if unsorted_q:
                r.shuffle(q)            # interval tables need not be sorted: each row gets the sequence of its own interval
            if not q:
                return
            qi = [x for x, _ in q]
            qs = [s_ for _, s_ in q]
            res = gf.read_sequence()[gf.get_intervals(tbl(qi, qs), stranded=True)]
            got = [t.upper() for t in text_rows(res)]
            exp = []
            for (c, a, b), s_ in zip(qi, qs):
                t = seqs[c][a:b]
                exp.append("".join(COMP[x] for x in reversed(t)) if s_ == "-" else t)
            ctx.check("sequence[intervals]", got == exp, "GenomicSequence[intervals]/indexed-fasta:file-order-differs-from-genome-order%s" % (":unsorted-intervals" if unsorted_q else ""), "indexed-FASTA sequence under intervals gave %r expected %r (file order %r, genome order %r)" % (got[:4], exp[:4], order, gorder),
                      dict(wit, file_order=order, genome_order=gorder, got=got[:8], expected=exp[:8]), nt and (nt, "fasta", tuple(order), sort_names))
            for pth in (path, path + ".fai"):
                if os.path.exists(pth):
                    os.remove(pth)
        guard("GenomicSequence[intervals]/indexed-fasta", fasta_route)
        # metamorphic independence: replace the entries of every chromosome but c
        if len(names) >= 2:
            c = r.choice(names)
            others = {n: s for n, s in sizes.items()}
            ivs2 = [x for x in gen_intervals(r, sizes) if x[0] != c] + [x for x in ivs if x[0] == c]
            ivs2.sort(key=lambda t: (names.index(t[0]), t[1], t[2]))
            if ivs2:
                gi2 = genome.get_intervals(tbl(ivs2))
                m1 = np.asarray(gi.get_pileup().to_dict()[c]).tolist()
                m2 = np.asarray(gi2.get_pileup().to_dict()[c]).tolist()
                ctx.check("independence", m1 == m2, "independence/pileup-depends-on-other-chromosome", "pileup of %s changed when entries of other chromosomes were replaced" % c, dict(wit, chrom=c, other=ivs2), (key, tuple(ivs2)))
                a1 = per_chrom(rows(gi_m.merged(1).get_data()), names)[c]
                a2 = per_chrom(rows(gi2.merged(1).get_data()), names)[c]
                ctx.check("independence", a1 == a2, "independence/merged-depends-on-other-chromosome", "merged(1) of %s changed when entries of other chromosomes were replaced" % c, dict(wit, chrom=c, other=ivs2), (key, tuple(ivs2), "m"))

    def replace_and_clip(genome, pushed, tbl):
        # GenomicIntervals cannot be built from out-of-contig entries through get_intervals' checks in every version; build Full object directly
        from bionumpy.genomic_data.genomic_intervals import GenomicIntervalsFull
        return GenomicIntervalsFull(tbl(pushed), genome.get_genome_context()).clip()

    def bijection(case):
        r = random.Random(case["seed"])
        sizes = gen_genome(r, 8)
        names = list(sizes)
        go = bnp.Genome.from_dict(sizes).get_genome_context().global_offset
        pos = [(n, p) for n in names for p in range(sizes[n])]
        glob = go.from_local_coordinates(bnp.as_encoded_array([n for n, p in pos]), np.array([p for n, p in pos], dtype=int))
        g = np.asarray(glob).tolist()
        ctx.check("bijection", sorted(g) == list(range(sum(sizes.values()))) and g == sorted(g), "global-offset/positions-not-bijective", "from_local_coordinates is not the identity enumeration of the concatenated genome: %r" % g[:20],
                  {"sizes": sizes, "got": g}, (tuple(sizes.items()), "pos"))
        ch, loc = go.to_local_coordinates(np.asarray(glob))
        back = [(names[i], p) for i, p in zip(np.asarray(ch.raw()).tolist(), np.asarray(loc).tolist())]
        ctx.check("bijection", back == pos, "global-offset/to_local(from_local)-positions", "to_local_coordinates(from_local_coordinates(x)) != x: %r" % [(a, b) for a, b in zip(back, pos) if a != b][:4],
                  {"sizes": sizes}, (tuple(sizes.items()), "pos-rt"))
        ivs = [(n, a, b) for n in names for a in range(sizes[n]) for b in range(a + 1, sizes[n] + 1)]
        t = Interval([x[0] for x in ivs], np.array([x[1] for x in ivs], dtype=int), np.array([x[2] for x in ivs], dtype=int))
        gl = go.from_local_interval(t)
        lt = go.to_local_interval(gl)
        back = list(zip([names[i] for i in np.asarray(lt.chromosome.raw()).tolist()], np.asarray(lt.start).tolist(), np.asarray(lt.stop).tolist()))
        ctx.check("bijection", back == ivs, "global-offset/to_local(from_local)-intervals", "to_local_interval(from_local_interval(x)) != x: %r" % [(a, b) for a, b in zip(back, ivs) if a != b][:4],
                  {"sizes": sizes}, (tuple(sizes.items()), "iv-rt"))

    # ---- genomes beyond 2**31 positions: sorting, locations, merging, clipping (interval arithmetic in Python ints, no dense arrays) ----------
    def big_genome(case):
        r = random.Random(case["seed"])
        names = ["chr1", "chr2", "chr3", "chr4"]
        sizes = {n: r.choice([900_000_000, 1_100_000_000, 2 ** 30 + 7]) for n in names}
        genome = bnp.Genome.from_dict(sizes)
        ivs = []
        for _ in range(r.randint(2, 12)):
            c = r.choice(names)
            a = r.choice([0, r.randrange(0, sizes[c] - 10), sizes[c] - r.randint(2, 1000)])
            ivs.append((c, a, min(sizes[c], a + r.choice([1, 5, 10 ** 6]))))
        wit = {"sizes": sizes, "intervals": ivs, "seed": case["seed"]}
        exp = sorted(ivs, key=lambda t: (names.index(t[0]), t[1], t[2]))
        got = rows(genome.get_intervals(tbl(ivs)).sorted().get_data())
        gi = genome.get_intervals(tbl(exp))          # merging, masks and pileups take intervals in genome order
        ctx.check("sorted", got == exp, "sorted/genome-order:genome-beyond-2**31", "sorted() on a %.1f Gb genome gave %r, expected %r" % (sum(sizes.values()) / 1e9, got[:4], exp[:4]), dict(wit, got=got), ("bigg", case["seed"], "s"))
        got = rows(gi.merged().get_data())
        expm = [(n, a, b) for n in names for a, b in merge_model([(a, b) for c, a, b in ivs if c == n], 0)]
        ctx.check("merged", got == expm, "merged/per-chromosome:genome-beyond-2**31", "merged() gave %r expected %r" % (got[:4], expm[:4]), dict(wit, got=got), ("bigg", case["seed"], "m"))
        got = int(np.sum(gi.get_mask()))
        expu = sum(b - a for _, a, b in expm)
        ctx.check("get_mask", got == expu, "get_mask/covered-bases:genome-beyond-2**31", "mask covers %d bases, the union has %d" % (got, expu), dict(wit, got=got, expected=expu), ("bigg", case["seed"], "k"))
        got = int(np.sum(gi.get_pileup()))
        expt = sum(b - a for _, a, b in ivs)
        ctx.check("get_pileup", got == expt, "get_pileup/total:genome-beyond-2**31", "pileup sums to %d, interval lengths to %d" % (got, expt), dict(wit, got=got, expected=expt), ("bigg", case["seed"], "p"))
    # ---- binned counts of locations: every chromosome has its own bins; the last bin of a chromosome may be short -------------------
    def binned(case):
        from bionumpy.genomic_data.binned_genome import BinnedGenome
        r = random.Random(case["seed"])
        sizes = {n: v for n, v in gen_genome(r, maxsize).items() if "_" not in n} or {"chr1": r.randint(1, maxsize)}
        names = list(sizes)
        genome = bnp.Genome.from_dict(sizes)
        bs = r.choice([1, 2, 3, 5, 10])
        locs = []
        for n in names:
            for _ in range(r.randint(0, 4)):
                locs.append((n, r.choice([0, sizes[n] - 1, r.randrange(sizes[n])])))
        if not locs:
            return
        bg = BinnedGenome(genome.get_genome_context(), bs)
        bg.count(LocationEntry([c for c, p in locs], np.array([p for c, p in locs], dtype=int)))
        got = {n: np.asarray(v).tolist() for n, v in bg.count_dict.items()}
        exp = {}
        for n in names:
            e = [0] * ((sizes[n] + bs - 1) // bs)
            for c, p in locs:
                if c == n:
                    e[p // bs] += 1
            exp[n] = e
        ctx.check("binned-counts", got == exp, "BinnedGenome.count/per-chromosome", "binned counts (bin size %d) gave %r, per-chromosome model %r" % (bs, got, exp), {"sizes": sizes, "locations": locs, "bin_size": bs, "got": got, "expected": exp}, (tuple(sizes.items()), tuple(locs), bs))
    for i in range(ctx.share(ctx.pick(400, 6000))):
        ctx.run_case(binned, {"seed": rng.randrange(2 ** 40)})

    for i in range(ctx.pick(2, 30)):
        ctx.run_case(big_genome, {"seed": ctx.seed * 6007 + ctx.shard * 13 + i})

    for i in range(ctx.share(ctx.pick(1200, 20000))):
        ctx.run_case(one, {"seed": rng.randrange(2 ** 40)})
    for i in range(ctx.share(ctx.pick(192, 3000))):
        ctx.run_case(bijection, {"seed": rng.randrange(2 ** 40)})
    ctx.sample({"example": {"sizes": {"chr1": 10, "chr10": 5}, "intervals": [["chr1", 8, 10], ["chr10", 0, 5]], "ops": "mask, pileup, merged(0|d), clip, extended_to_size, sorted, get_location, get_windows, array[intervals], sequence[intervals], Geometry.*"}})
    ctx.floor("judged:merged", ctx.pick(100, 3000))
    ctx.floor("judged:get_mask", ctx.pick(50, 1500))
    ctx.floor("judged:bijection", ctx.pick(50, 1500))
    ctx.floor("judged:array[intervals]", ctx.pick(50, 1500))
    ctx.floor("lazy_selection_operands", ctx.pick(20, 400))       # the un-decoded / lazy-view variants must actually have run


def replay(ctx, w):
    pass
