"""C03 — write then read returns the same table; writing is canonical and composable.

Write-event history monitor + read-back: tables are built from typed records, written through the real writers and the bytes
are compared with an independent canonical serialiser (R1); every composition of the rows into successive write calls
(all 2^(n-1) splits), a stream of pieces, 'w' then re-opened 'a', and a gzip target must give the same content as one write,
with any header exactly once and first; reading the file back must give the table.
"""
import gzip as _gzip
import itertools
import random

import numpy as np

import math
from bnpmon.models.formats import FORMATS, make_file, float_close
from bnpmon import tables

RULE = ("tables of 0..N rows (N=6 quick, 10 thorough for the exhaustive split enumeration; up to 60 rows sampled) for Interval, Bed6, Bed12, BedGraph, NarrowPeak, SequenceEntry (two-line and "
        "80-column wrapped FASTA with lengths around multiples of 80), SequenceEntryWithQuality, VCF (constructed and read-then-modified), SAM, GTF, with generated field contents "
        "(identifier charset, int64-range coordinates at powers of ten, floats, empty optional fields) x ALL 2^(n-1) ways of splitting the rows into successive writes x {plain, gzip, w+a, stream}; "
        "one evaluation = one (table, write history) compared byte-wise / value-wise; distinct = (format, rows, history); non-trivial = >= 2 rows")
ASSUMPTIONS = ["independent canonical serialiser: tab separated columns, one record per line, str(int) for integers; a float field is correct iff float(text) equals the written double "
               "('equal to printing precision'), not a particular spelling", "pure 'a' histories on a new file are outside the statement (no header expected) and are not generated"]
EXHAUSTIVE_CORE = "all 2^(n-1) splits of the rows into successive writes for n <= 6 (10)"

# format -> (datatype name, writer buffer name or None, column kinds for delimited formats)
WRITE_SPECS = {
    "bed3": ("Interval", None, "sii"), "bed6": ("Bed6", "Bed6Buffer", "siisis"), "bed12": ("Bed12", "Bed12Buffer", "siisisiisiLL"), "bdg": ("BedGraph", None, "siif"),
    "narrowpeak": ("NarrowPeak", None, "siisisfffi"), "fasta2": ("SequenceEntry", "TwoLineFastaBuffer", None), "fastaw": ("SequenceEntry", None, None),
    "fastq": ("SequenceEntryWithQuality", None, None), "sam": ("SAMEntry", None, "sisiissiisss"), "gtf": ("GTFEntry", None, "sssiissss"), "vcf_noinfo": ("VCFWithInfoAsStringEntry", "VCFWithInfoAsStringBuffer", "sissssss"),
}


def preload():
    import bionumpy  # noqa
    tables.get_buffer_type("Bed6Buffer")


DNA_ENCODED = [False]


def build_table(fmt, records):
    import bionumpy as bnp
    from bionumpy import datatypes as dt
    from npstructures import RaggedArray
    cls = getattr(dt, WRITE_SPECS[fmt.name][0])
    cols = []
    import dataclasses
    from typing import List
    for fl in dataclasses.fields(cls):
        f = fl.name
        vals = [r["values"][f] if f != "info" else r["values"]["info_text"] for r in records]
        if fl.type in (int, __import__("typing").Optional[int]):
            cols.append(np.array(vals, dtype=np.int64))
        elif fl.type is float:
            cols.append(np.array(vals, dtype=float))
        elif fl.type == List[int] or f == "quality" and fmt.name == "fastq":
            cols.append(RaggedArray([np.array(v, dtype=int) for v in vals]) if vals else RaggedArray(np.zeros(0, dtype=int), np.zeros(0, dtype=int)))
        elif f == "sequence" and DNA_ENCODED[0] and vals and all(set(v) <= set("ACGT") for v in vals):
            import bionumpy as _bnp
            cols.append(_bnp.as_encoded_array(list(vals), _bnp.DNAEncoding))      # the caller holds its reads DNA-encoded
        else:
            cols.append(list(vals))
    return cls(*cols)


def canonical_records(fmt, records):
    """canonical text of each record (list of str), floats rendered with repr (compared by value later)."""
    out = []
    for r in records:
        if fmt.name == "fastaw":
            s = r["values"]["sequence"]
            lines = [s[j:j + 80] for j in range(0, len(s), 80)] or [""]
            out.append(">" + r["values"]["name"] + "\n" + "".join(l + "\n" for l in lines))
        elif fmt.name == "fasta2":
            out.append(">" + r["values"]["name"] + "\n" + r["values"]["sequence"] + "\n")
        elif fmt.name == "fastq":
            v = r["values"]
            out.append("@" + v["name"] + "\n" + v["sequence"] + "\n+\n" + "".join(chr(33 + q) for q in v["quality"]) + "\n")
        elif fmt.name.startswith("vcf"):
            t = list(r["texts"][:8])
            t[1] = str(r["values"]["position"] + 1)
            out.append("\t".join(t) + "\n")
        elif fmt.name == "sam":
            v = r["values"]
            t = [v["name"], str(v["flag"]), v["chromosome"], str(v["position"]), str(v["mapq"]), v["cigar"], v["next_chromosome"], str(v["next_position"]), str(v["length"]), v["sequence"], v["quality"]]
            if v["extra"]:
                t.append(v["extra"])
            out.append("\t".join(t) + "\n")
        else:
            out.append("\t".join(r["texts"]) + "\n")
    return out


def compare_bytes(fmt, got, exp_records, header):
    """-> None if equal (float columns by value), else description."""
    kinds = WRITE_SPECS[fmt.name][2]
    exp = header + "".join(exp_records)
    if got == exp:
        return None
    if kinds is None or "f" not in kinds:
        return "bytes differ"
    if not got.startswith(header):
        return "header differs"
    gl = got[len(header):].split("\n")
    el = "".join(exp_records).split("\n")
    if len(gl) != len(el):
        return "number of lines differs (%d vs %d)" % (len(gl), len(el))
    for a, b in zip(gl, el):
        if a == b:
            continue
        fa, fb = a.split("\t"), b.split("\t")
        if len(fa) != len(fb):
            return "number of columns differs in line %r" % a
        for x, y, k in zip(fa, fb, kinds):
            if x == y:
                continue
            if k == "f":
                try:
                    if float(x) == float(y) and math.copysign(1.0, float(x)) == math.copysign(1.0, float(y)):       # the two zeros are different doubles
                        continue
                except ValueError:
                    pass
            return "field %r differs from canonical %r" % (x, y)
    return None


def run(ctx):
    import bionumpy as bnp
    from bionumpy.streams import NpDataclassStream
    from bnpmon.ctx import originates_in_library, exc_site
    rng = ctx.rng
    nmax = ctx.pick(6, 10)
    HOT = [0, 1, 9, 10, 99, 100, 10 ** 9, 10 ** 15 - 1, 10 ** 15, 10 ** 18 - 1, 10 ** 18, 2 ** 62]

    NEG = [-1, -9, -10, -11, -99, -100, -101, -1000, -10 ** 6, -10 ** 9, -10 ** 15, -10 ** 18, -10 ** 18 + 1, -10 ** 18 - 1, -2 ** 62, -(2 ** 63) + 1]

    def gen(fmt_name, r, n):
        style = {"noncanon": False, "tags": r.random() < 0.7, "score_mode": "int"}
        fc = make_file(fmt_name, r, n, r.choice(["tiny", "normal", "wide"]), style)
        recs = fc["records"]
        # hostile values: int64-range coordinates, sequence lengths around multiples of 80
        for rec in recs:
            v = rec["values"]
            if "start" in v and r.random() < 0.3 and fmt_name != "bed12":
                a = r.choice(HOT)
                v["start"], v["stop"] = a, a + r.choice([1, 9, 10 ** 3])
                idx = list(FORMATS[fmt_name].fields).index("start")
                rec["texts"][idx], rec["texts"][idx + 1] = str(v["start"]), str(v["stop"])
            # signed integer columns: negative values at the digit-count boundaries
            for f in ("summit", "score"):
                if f in v and fmt_name in ("narrowpeak", "bed6") and r.random() < 0.25:
                    v[f] = r.choice(NEG)
                    rec["texts"][list(FORMATS[fmt_name].fields).index(f)] = str(v[f])
            if fmt_name in ("fastq", "fasta2") and r.random() < 0.15:
                # a record with an empty sequence (and no qualities) is representable: '@name', '', '+', ''
                v["sequence"] = ""
                rec["texts"][1] = ""
                if fmt_name == "fastq":
                    v["quality"] = []
                    rec["texts"][-1] = ""
            elif fmt_name in ("fastaw", "fasta2") and r.random() < 0.5:
                L = r.choice([1, 79, 80, 81, 159, 160, 161, 240])
                v["sequence"] = "".join(r.choice("ACGT") for _ in range(L))
                rec["texts"][1] = v["sequence"]
        if fmt_name == "bed12" and recs and r.random() < 0.3:
            # a feature without blocks: empty block lists, in the last row only or in several rows
            for rec in ([recs[-1]] if r.random() < 0.6 else r.sample(recs, r.randint(1, len(recs)))):
                rec["values"]["block_count"], rec["values"]["block_sizes"], rec["values"]["block_starts"] = 0, [], []
                rec["texts"][9], rec["texts"][10], rec["texts"][11] = "0", "", ""
            ctx.count("bed12_rows_without_blocks")
        # a float column holding values that are equal as numbers but different as doubles and as text (both zeros), or the same value many times
        kinds_ = WRITE_SPECS[fmt_name][2] or ""
        if "f" in kinds_ and len(recs) >= 2 and r.random() < 0.3:
            fcols = [i for i, k in enumerate(kinds_) if k == "f"]
            fld = list(FORMATS[fmt_name].fields)
            for i in r.sample(range(len(recs)), r.randint(2, len(recs))):
                c = r.choice(fcols)
                z = r.choice([0.0, -0.0, -0.0, recs[0]["values"][fld[c]]])
                recs[i]["values"][fld[c]] = z
                recs[i]["texts"][c] = repr(float(z))
            ctx.count("float_column_with_both_zeros_or_repeats")
        return recs

    def write(path, pieces, buffer, mode="w", as_stream=False, dataclass=None):
        bt = tables.get_buffer_type(buffer)
        f = bnp.open(path, mode, buffer_type=bt)
        try:
            if as_stream:
                f.write(NpDataclassStream(iter(pieces), dataclass=dataclass))
            else:
                for p in pieces:
                    f.write(p)
        finally:
            f.close()

    def read_bytes(path):
        if path.endswith(".gz"):
            return _gzip.open(path, "rb").read().decode("latin1")
        return open(path, "rb").read().decode("latin1")

    def one(case):
        fname, n, seed = case["fmt"], case["n"], case["seed"]
        r = random.Random(seed)
        fmt = FORMATS[fname]
        dtn, buffer, kinds = WRITE_SPECS[fname]
        recs = gen(fname, r, n)
        DNA_ENCODED[0] = r.random() < 0.4
        fields_ = list(fmt.fields)
        if DNA_ENCODED[0] and "sequence" in fields_ and r.random() < 0.8:
            # the reads are held in the DNA alphabet by the caller: letters outside it are redrawn (lengths stay, so CIGARs and qualities still fit)
            si = fields_.index("sequence")
            for rec in recs:
                seq_ = "".join(ch if ch in "ACGT" else r.choice("ACGT") for ch in rec["values"]["sequence"].upper())
                rec["values"]["sequence"] = seq_
                rec["texts"][si] = seq_
        if "score" in fields_ and fname in ("bed6", "bed12", "narrowpeak") and recs and r.random() < 0.2:
            # a score column of zeros only (and, through the pieces written below, pieces whose scores are all zero)
            ci = fields_.index("score")
            for rec in recs:
                if isinstance(rec["values"]["score"], int):
                    rec["values"]["score"] = 0
                    rec["texts"][ci] = "0"
            ctx.count("tables_with_all_scores_zero")
        t = build_table(fmt, recs)
        if hasattr(t, "sequence") and hasattr(t.sequence, "encoding") and not t.sequence.encoding.is_base_encoding() and n >= 2:
            ctx.count("tables_with_reads_held_in_the_dna_alphabet")
        exp_recs = canonical_records(fmt, recs)
        header = ""
        if fname.startswith("vcf"):
            header = "##fileformat=VCFv4.1\n" + "\t".join("#CHROM POS ID REF ALT QUAL FILTER INFO FORMAT".split()) + "\n"
        suffix = fmt.suffix
        wit = {"format": fname, "n": n, "seed": seed, "first_record": recs[0]["values"] if recs else None}
        nt = (fname, seed, n) if n >= 2 else None
        vkey = fname

        def judge(history, path, expected_header=header):
            got = read_bytes(path)
            why = compare_bytes(fmt, got, exp_recs, expected_header if n or history == "single" or True else "")
            ctx.check("bytes:" + history.split(":")[0], why is None, "%s/bytes-not-canonical:%s" % (vkey, history.split(":")[0]), "%s written via %s: %s; got %r expected %r" % (fname, history, why, got[:160], (expected_header + "".join(exp_recs))[:160]),
                      dict(wit, history=history, got=got[:600], expected=(expected_header + "".join(exp_recs))[:600], why=why), nt and (nt, history))
            if expected_header:
                cnt = got.count(expected_header.split("\n")[0] + "\n")
                ctx.check("header-once", cnt == 1 and got.startswith(expected_header), "%s/header-not-exactly-once:%s" % (vkey, history.split(":")[0]), "header emitted %d times via %s" % (cnt, history), dict(wit, history=history, got=got[:300]), nt and (nt, history, "h"))
            return got

        try:
            p0 = ctx.path("single" + suffix)
            write(p0, [t], buffer)
            single = judge("single", p0)
        except Exception as e:
            if not originates_in_library(e):
                raise
            et, site = exc_site(e)
            ctx.judged("bytes:single", nt)
            ctx.violation("%s/write-raised:%s@%s" % (vkey, et, site), "writing a representable %s table raised %s: %s" % (dtn, et, str(e)[:120]), wit)
            return
        # read back
        if n:
            try:
                back = bnp.open(p0, buffer_type=tables.get_buffer_type(buffer)).read()
                exp_cols = {}
                for f in [fl for fl in fmt.fields]:
                    exp_cols[f] = [rec["values"][f] if f != "info" else rec["values"]["info_text"] for rec in recs]
                got_cols = tables.table_columns(back, list(exp_cols))
                bad = tables.compare_columns(got_cols, exp_cols)
                ctx.check("read-back", not bad, "%s/read-back-differs" % vkey, "reading the written file back: %r" % (bad[:2],), dict(wit, bad=[list(map(str, b)) for b in bad[:4]]), nt and (nt, "rb"))
            except Exception as e:
                if not originates_in_library(e):
                    raise
                et, site = exc_site(e)
                ctx.judged("read-back", nt)
                ctx.violation("%s/read-back-raised:%s@%s" % (vkey, et, site), "reading the written file back raised %s: %s" % (et, str(e)[:100]), wit)
        # the table read back from the written file (lazily where the format allows), cut into row selections and written again:
        # successive writes of the pieces == one write of their concatenation == the single write; a reordered selection gives the reordered records
        if n >= 2:
            # eager re-reading parses and re-renders every field: float columns then depend on C18's parsing bound and eager VCF writing is C05's
            # known finding, so the eager variant is driven for the formats without float columns only
            eager_ok = not fname.startswith("vcf") and (kinds is None or "f" not in kinds)
            for lazy in ((None, False) if eager_ok else (None,)):
                hist = "reread%s" % ("" if lazy is None else "-eager")
                try:
                    back = bnp.open(p0, buffer_type=tables.get_buffer_type(buffer), lazy=lazy).read()
                    cuts = tuple(sorted(r.sample(range(1, n), r.randint(1, min(3, n - 1)))))
                    b = [0] + list(cuts) + [n]
                    pieces = [back[i:j] for i, j in zip(b[:-1], b[1:])]
                    mask = np.array([r.random() < 0.5 for _ in range(n)])
                    outs = {}
                    for name, pcs in (("successive", pieces), ("concatenated", [np.concatenate(pieces)]), ("filter-successive", [back[mask], back[~mask]]), ("filter-concatenated", [np.concatenate([back[mask], back[~mask]])]),
                                      ("reversed", [back[::-1]])):
                        pth = ctx.path(hist + name + suffix)
                        write(pth, pcs, buffer)
                        outs[name] = read_bytes(pth)
                    # a modified copy is made with bnp.replace (and thrown away); the table read back is written afterwards: it still writes its own records
                    intf = next((f_ for f_ in ("start", "position", "pos1") if hasattr(back, f_)), None)
                    if intf is not None:
                        bnp.replace(back, **{intf: np.asarray(getattr(back, intf)) + 5})
                        pth = ctx.path(hist + "after-replace" + suffix)
                        write(pth, [back], buffer)
                        outs["original-after-a-modified-copy-was-made"] = read_bytes(pth)
                except Exception as e:
                    if not originates_in_library(e):
                        raise
                    et, site = exc_site(e)
                    ctx.judged("history:" + hist, nt)
                    ctx.violation("%s/%s-write-raised:%s@%s" % (vkey, hist, et, site), "writing selections of the table read back raised %s: %s" % (et, str(e)[:100]), wit)
                    continue
                order = [i for i in range(n) if mask[i]] + [i for i in range(n) if not mask[i]]
                exp_f = header + "".join(exp_recs[i] for i in order)
                exp_r = header + "".join(exp_recs[::-1])
                lenient_fmt = fname in ("fastaw",)     # wrapped FASTA re-wraps; compared through the single write only
                for name, exp in (("successive", single), ("concatenated", single), ("filter-successive", exp_f), ("filter-concatenated", exp_f), ("reversed", exp_r)) + ((("original-after-a-modified-copy-was-made", single),) if "original-after-a-modified-copy-was-made" in outs else ()):
                    if exp is not single and compare_bytes(fmt, single, exp_recs, header) is not None:
                        continue
                    if exp is not single:
                        why = compare_bytes(fmt, outs[name], [exp_recs[i] for i in (order if name.startswith("filter") else range(n - 1, -1, -1))], header)
                        ok = why is None
                    else:
                        ok = outs[name] == single
                    ctx.check("history:" + hist, ok, "%s/%s:%s-differs" % (vkey, hist, name), "selections of the table read back, written as %s: got %r expected %r" % (name, outs[name][:200], exp[:200]),
                              dict(wit, history=hist + ":" + name, got=outs[name][:500], expected=exp[:500], cuts=list(cuts), mask=mask.tolist()), nt and (nt, hist, name))
        # every split into successive writes
        if n >= 2:
            cut_sets = [c for k in range(1, n) for c in itertools.combinations(range(1, n), k)] if n <= nmax else [tuple(sorted(r.sample(range(1, n), r.randint(1, min(8, n - 1))))) for _ in range(12)]
            for cuts in cut_sets:
                b = [0] + list(cuts) + [n]
                pieces = [t[i:j] for i, j in zip(b[:-1], b[1:])]
                p = ctx.path("split" + suffix)
                try:
                    write(p, pieces, buffer)
                    got = read_bytes(p)
                except Exception as e:
                    if not originates_in_library(e):
                        raise
                    et, site = exc_site(e)
                    ctx.violation("%s/split-write-raised:%s@%s" % (vkey, et, site), "successive writes raised %s" % et, dict(wit, cuts=list(cuts)))
                    continue
                ctx.check("split==single", got == single, "%s/split-writes-differ-from-single-write" % vkey, "writes split at %r give different content than one write" % (list(cuts),), dict(wit, cuts=list(cuts), got=got[:400], single=single[:400]), nt and (nt, cuts))
        # other histories on a sample of splits
        cuts = tuple(sorted(r.sample(range(1, n), r.randint(1, min(3, n - 1))))) if n >= 2 else ()
        b = [0] + list(cuts) + [n]
        pieces = [t[i:j] for i, j in zip(b[:-1], b[1:])]
        # empty pieces in between
        for hist in ("stream", "stream-with-empty-chunks", "gzip", "w+a", "empty-pieces"):
            p = ctx.path(hist.replace("+", "") + suffix + (".gz" if hist == "gzip" else ""))
            try:
                if hist == "stream":
                    write(p, pieces, buffer, as_stream=True, dataclass=type(t))
                elif hist == "stream-with-empty-chunks":
                    if n == 0:
                        continue
                    # a stream in which empty chunks sit between (and before) the non-empty ones, e.g. a per-chunk filter that matches nothing
                    with_empty = [pieces[0]]
                    for piece in pieces[1:]:
                        with_empty += [t[:0], piece]
                    if r.random() < 0.3 and len(pieces) > 1:
                        with_empty = with_empty + [t[:0]]
                    write(p, with_empty, buffer, as_stream=True, dataclass=type(t))
                elif hist == "gzip":
                    write(p, pieces, buffer)
                elif hist == "w+a":
                    write(p, pieces[:1], buffer)
                    for piece in pieces[1:]:
                        write(p, [piece], buffer, mode="a")
                else:
                    withempty = []
                    for piece in pieces:
                        withempty += [piece, t[:0]]
                    write(p, [t[:0]] + withempty, buffer)
                got = read_bytes(p)
            except Exception as e:
                if not originates_in_library(e):
                    raise
                et, site = exc_site(e)
                ctx.judged("history:" + hist, nt)
                ctx.violation("%s/%s-write-raised:%s@%s" % (vkey, hist, et, site), "%s write raised %s: %s" % (hist, et, str(e)[:100]), dict(wit, cuts=list(cuts)))
                continue
            ctx.check("history:" + hist, got == single, "%s/%s-differs-from-single-write%s" % (vkey, hist, ":table-without-rows" if n == 0 else ""), "%s history (cuts %r) gives different content than one write" % (hist, list(cuts)), dict(wit, cuts=list(cuts), got=got[:400], single=single[:400]), nt and (nt, hist, cuts))

    def vcf_modified(case):
        """VCF read from generated text (header with INFO), modified, written: header kept exactly once, POS 1-based, untouched columns as in source."""
        r = random.Random(case["seed"])
        fc = make_file("vcf", r, case["n"], "normal", {})
        p = tables.write_case_file(ctx, fc)
        t = bnp.open(p).read()
        newpos = np.asarray(t.position) + 5
        t2 = bnp.replace(t, position=newpos)
        out = ctx.path("mod.vcf")
        with bnp.open(out, "w") as f:
            f.write(t2)
        got = open(out).read()
        exp = fc["header"] + "".join("\t".join([rec["texts"][0], str(rec["values"]["position"] + 1 + 5)] + rec["texts"][2:8]) + "\n" for rec in fc["records"])
        ctx.check("vcf-modified", got == exp, "vcf/read-modify-write", "VCF read, position replaced, written: got %r expected %r" % (got[-200:], exp[-200:]), {"seed": case["seed"], "got": got[-500:], "expected": exp[-500:]}, ("vcfmod", case["seed"]))
        back = bnp.open(out).read()
        ctx.check("vcf-modified", np.asarray(back.position).tolist() == newpos.tolist(), "vcf/read-modify-write:read-back", "positions read back differ", {"seed": case["seed"]}, ("vcfmod", case["seed"], "rb"))

    def vcf_entry_constructed(case):
        """VCFEntry (the default VCF datatype, INFO given as text) built from values and written through the default VCF writer."""
        from bionumpy.datatypes import VCFEntry
        r = random.Random(case["seed"])
        fc = make_file("vcf_noinfo", r, case["n"], "normal", {})
        recs = fc["records"]
        t = VCFEntry([x["values"]["chromosome"] for x in recs], np.array([x["values"]["position"] for x in recs], dtype=int), [x["values"]["id"] for x in recs], [x["values"]["ref_seq"] for x in recs],
                     [x["values"]["alt_seq"] for x in recs], [x["values"]["quality"] for x in recs], [x["values"]["filter"] for x in recs], [x["values"]["info_text"] for x in recs])
        out = ctx.path("entry.vcf")
        try:
            with bnp.open(out, "w") as f:
                f.write(t)
        except Exception as e:
            if not originates_in_library(e):
                raise
            et, site = exc_site(e)
            ctx.judged("vcf-entry", ("vcfentry", case["seed"]))
            ctx.violation("vcf_entry/write-raised:%s@%s" % (et, site), "writing a constructed VCFEntry raised %s: %s" % (et, str(e)[:100]), {"seed": case["seed"]})
            return
        got = open(out).read()
        header = "##fileformat=VCFv4.1\n" + "\t".join("#CHROM POS ID REF ALT QUAL FILTER INFO FORMAT".split()) + "\n"
        exp = header + "".join("\t".join([x["texts"][0], str(x["values"]["position"] + 1)] + x["texts"][2:8]) + "\n" for x in recs)
        ctx.check("vcf-entry", got == exp, "vcf_entry/bytes-not-canonical", "constructed VCFEntry written: got %r expected %r" % (got[-200:], exp[-200:]), {"seed": case["seed"], "got": got[-400:], "expected": exp[-400:]}, ("vcfentry", case["seed"]))

    def source_header_pieces(case):
        """a table that carries the header of the file it was read from (VCF ## lines, SAM @ lines), written whole and in pieces some of which are empty (also the first):
        the same bytes every time, the source's header exactly once"""
        r = random.Random(case["seed"])
        fname = case["fmt"]
        fmt = FORMATS[fname]
        fc = make_file(fname, r, r.randint(2, 6), "normal", {"noncanon": False, "tags": True})
        src = ctx.path("hdr" + fmt.suffix)
        with open(src, "wb") as f:
            f.write(fc["data"])
        bt = tables.get_buffer_type(fmt.buffer) if fmt.buffer else None
        t = bnp.open(src, buffer_type=bt).read() if bt else bnp.open(src).read()
        n = len(t)
        def written(pcs, tag):
            p_ = ctx.path("hp" + tag + fmt.suffix)
            with (bnp.open(p_, "w", buffer_type=bt) if bt else bnp.open(p_, "w")) as f:
                for pc in pcs:
                    f.write(pc)
            return read_bytes(p_)
        k = r.randint(1, n - 1)
        none = np.zeros(n, dtype=bool)
        try:
            one_ = written([t], "one")
            variants = {"empty-first": [t[:0], t], "empty-filter-first": [t[none], t[:k], t[k:]], "empty-in-the-middle": [t[:k], t[k:k], t[k:]], "empty-last": [t, t[n:]]}
            outs = {name: written(pcs, name) for name, pcs in variants.items()}
        except Exception as e:
            if not originates_in_library(e):
                raise
            et, site = exc_site(e)
            ctx.violation("%s/source-header-pieces-write-raised:%s@%s" % (fname, et, site), "writing pieces of a table read from a file raised %s: %s" % (et, str(e)[:100]), {"format": fname, "seed": case["seed"]})
            return
        hdr = fc["header"]
        ctx.check("header-once", one_.startswith(hdr) and one_.count(hdr.split("\n")[0] + "\n") == 1, "%s/source-header-not-kept:single-write" % fname, "one write of a table read from a file starts with %r, the file's header is %r" % (one_[:80], hdr[:80]), {"format": fname, "seed": case["seed"]}, (fc["data"], "one"))
        for name, got in outs.items():
            ctx.check("split==single", got == one_, "%s/pieces-with-an-empty-one-differ-from-single-write:%s" % (fname, name), "pieces (%s) of a table carrying its source's header: got %r, one write gives %r" % (name, got[:160], one_[:160]),
                      {"format": fname, "seed": case["seed"], "pieces": name, "got": got[:600], "expected": one_[:600]}, (fc["data"], name, k))
        if fname == "vcf":
            # a write that is refused must leave the table as it was (an eagerly read table with typed INFO is refused by the writer: C05's listed finding)
            E = bnp.open(src, lazy=False).read()
            pos0 = np.asarray(E.position).tolist()
            try:
                written([E], "eager")
                refused = False
            except Exception as e:
                if not originates_in_library(e):
                    raise
                refused = True
            ctx.check("header-once", np.asarray(E.position).tolist() == pos0, "vcf/table-changed-by-a-%s-write" % ("refused" if refused else "completed"), "positions %r became %r through a %s write" % (pos0[:4], np.asarray(E.position).tolist()[:4], "refused" if refused else "completed"),
                      {"format": fname, "seed": case["seed"], "refused": refused}, (fc["data"], "eager-write"))
        ctx.count("source_header_pieces")

    for i in range(ctx.share(ctx.pick(64, 1200))):
        ctx.run_case(source_header_pieces, {"seed": rng.randrange(2 ** 40), "fmt": ["vcf", "sam", "vcf_noinfo"][i % 3]})

    fmts = list(WRITE_SPECS)
    for i in range(ctx.share(ctx.pick(40 * len(fmts), 600 * len(fmts)))):
        fname = fmts[i % len(fmts)]
        n = rng.choice([0, 1, 2, 3, nmax, rng.randint(2, nmax)])
        ctx.run_case(one, {"fmt": fname, "n": n, "seed": rng.randrange(2 ** 40)})
    for i in range(ctx.share(ctx.pick(16, 400))):
        ctx.run_case(one, {"fmt": rng.choice(fmts), "n": rng.randint(nmax + 1, 60), "seed": rng.randrange(2 ** 40)})
    for i in range(ctx.share(ctx.pick(32, 800))):
        ctx.run_case(vcf_modified, {"seed": rng.randrange(2 ** 40), "n": rng.randint(1, 6)})
    for i in range(ctx.share(ctx.pick(32, 800))):
        ctx.run_case(vcf_entry_constructed, {"seed": rng.randrange(2 ** 40), "n": rng.randint(1, 6)})
    ctx.sample({"format": "bed6", "rows": [["chr1", 999999999999999, 1000000000000008, "a", 5, "+"]], "histories": "single, every split, stream, gzip, w+a, empty pieces"})
    ctx.floor("judged:bytes:single", ctx.pick(100, 2000))
    ctx.floor("judged:split==single", ctx.pick(500, 10000))
    ctx.floor("judged:read-back", ctx.pick(50, 1000))


def replay(ctx, w):
    pass
