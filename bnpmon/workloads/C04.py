"""C04 — unmodified records and fields are written back byte-for-byte.

Boundary monitor with uniquely tagged records: every record of the source file carries a unique tag; an index program
(selections, repetitions, concatenations, field replacements) is applied to the lazily read table and to the Python list of raw
source records; the bytes the writer produces must equal the concatenation of the selected raw records (non-replaced
fields keep their original, possibly non-canonical, spelling; replaced fields carry the canonical rendering of the new value).
"""
import random

import numpy as np

from bnpmon.models.formats import FORMATS, make_file
from bnpmon import tables

RULE = ("source files in BED3/BED6/narrowPeak/bedGraph/VCF/SAM/GTF/FASTQ/two-line FASTA with valid non-canonical spelling (leading zeros, '+5', '1e3' scores, optional SAM tags, FASTQ '+name' lines), LF or CRLF, "
        "with or without final newline, read whole or in chunks; programs of 1..4 (7) steps from {slice, stepped/negative slice, boolean mask, integer list with repeats, empty selection, "
        "np.concatenate with another selection of the same or another chunk, bnp.replace of <=2 fields}; one evaluation = one (file, program) whose written bytes are compared; "
        "distinct = (file bytes, read mode, program); non-trivial = result has >= 1 record and the program has >= 2 steps or a non-trivial selection")
ASSUMPTIONS = ["raw record bytes of the source, selected by the same program on a Python list, are the reference; a missing final newline is normalised to a line end",
               "with replaced fields only the columns of the entry type are compared (columns beyond the entry type, e.g. VCF sample columns read with the plain VCF type, and the FASTQ '+name' line are outside the statement)"]
EXHAUSTIVE_CORE = None

# fmt -> (suffix buffer override, replaceable fields {name: (column index, kind)})
SOURCES = {
    "bed3": {"start": (1, "int"), "stop": (2, "int")},
    "bed6": {"start": (1, "int"), "stop": (2, "int"), "score": (4, "int"), "name": (3, "name")},
    "narrowpeak": {"start": (1, "int"), "summit": (9, "int")},
    "bdg": {"start": (1, "int"), "stop": (2, "int")},
    "bed12": {"start": (1, "int"), "score": (4, "int"), "thick_start": (6, "int")},
    "vcf": {"position": (1, "pos")},
    "sam": {"position": (3, "int"), "mapq": (4, "int")},
    "gtf": {},
    "fastq": {},
    "fasta2": {},
}


def preload():
    import bionumpy  # noqa
    tables.get_buffer_type("Bed6Buffer")


def run(ctx):
    import bionumpy as bnp
    from bnpmon.ctx import originates_in_library, exc_site
    rng = ctx.rng
    maxsteps = ctx.pick(4, 7)

    def gen_selection(r, n):
        k = r.random()
        if k < 0.3:
            return ("slice", r.choice([None, r.randint(-n - 1, n + 1)]), r.choice([None, r.randint(-n - 1, n + 1)]), r.choice([None, 1, 2, -1, 3]))
        if k < 0.55:
            return ("mask", [r.random() < 0.6 for _ in range(n)], r.random() < 0.3)
        if k < 0.8:
            return ("fancy", [r.randint(-n, n - 1) for _ in range(r.randint(1, 5))] if n else [], r.random() < 0.3)
        if k < 0.9 and n >= 2:
            # as many row numbers as the table has rows: a resampling that misses row 0, a reversal written with negative numbers, a permutation
            kind = r.random()
            if kind < 0.3:
                idx = [r.randint(1, n - 1) for _ in range(n)]
            elif kind < 0.5:
                idx = list(range(-1, -n - 1, -1))
            elif kind < 0.75 and n >= 4:
                # a run of consecutive rows whose ends stay in place and whose inner rows are shuffled (the selected bytes are one gap-free stretch of the file)
                a_ = r.randint(0, n - 4)
                b_ = r.randint(a_ + 3, n - 1)
                inner = list(range(a_ + 1, b_))
                r.shuffle(inner)
                idx = [a_] + inner + [b_]
            else:
                idx = r.sample(range(n), n)
            return ("fancy", idx, r.random() < 0.3)
        return ("empty",)

    def apply_sel_model(state, sel):
        if sel[0] == "slice":
            return state[slice(sel[1], sel[2], sel[3])]
        if sel[0] == "mask":
            return [x for x, m in zip(state, sel[1]) if m]
        if sel[0] == "fancy":
            return [state[i] for i in sel[1]]
        return []

    def apply_sel_real(t, sel):
        if sel[0] == "slice":
            return t[slice(sel[1], sel[2], sel[3])]
        as_list = len(sel) > 2 and sel[2] and len(sel[1]) > 0       # the index given as a plain Python list instead of a NumPy array
        if sel[0] == "mask":
            return t[list(sel[1]) if as_list else np.array(sel[1], dtype=bool)]
        if sel[0] == "fancy":
            return t[list(sel[1]) if as_list else np.array(sel[1], dtype=int)]
        return t[:0]

    def one(case):
        r = random.Random(case["seed"])
        fname = case["fmt"]
        fmt = FORMATS[fname]
        style = {"eol": case["eol"], "final_newline": case["final_newline"], "noncanon": case["noncanon"], "plusname": True, "tags": True, "score_mode": "int"}
        n = r.randint(1, ctx.pick(8, 30))
        fc = make_file(fname, r, n, r.choice(["tiny", "normal", "wide"]), style)
        eol = fc["eol"]
        if case.get("huge") and fname in ("bed6", "vcf"):
            # one field of more than 65 536 characters (a spelled-out structural variant allele, a very long name)
            col = 3
            i_h = r.randrange(n)
            f_h = fc["raws"][i_h][:-len(eol)].split("\t")
            f_h[col] = (f_h[col][:1] or "A") * 0 + "".join(r.choice("ACGT") for _ in range(70001))
            fc["raws"][i_h] = "\t".join(f_h) + eol
            body = "".join(fc["raws"])
            if not fc["final_newline"]:
                body = body[:-len(eol)]
            fc["body"], fc["data"] = body, (fc["header"] + body).encode("latin1")
        raws = list(fc["raws"])
        if not fc["final_newline"]:
            raws[-1] = raws[-1][:-len(eol)]       # the file ends without a line terminator
        path = tables.write_case_file(ctx, fc)
        bt = tables.get_buffer_type(fmt.buffer)
        # read: whole, or chunked (chunks concatenated by the program)
        if case["chunked"]:
            longest = max(len(x) for x in raws) + 2
            k = r.randint(longest, longest * 3)
            chunks = list(bnp.open(path, buffer_type=bt).read_chunks(min_chunk_size=k))
            sizes = [len(c) for c in chunks]
            if sum(sizes) != n:
                ctx.observe("chunked-read-count-differs(C01's business)")
                return
            bounds = np.cumsum([0] + sizes).tolist()
            parts = [(c, list(range(a, b))) for c, a, b in zip(chunks, bounds[:-1], bounds[1:])]
        else:
            parts = [(bnp.open(path, buffer_type=bt).read(), list(range(n)))]
        def judge_write(t, state, replaced_any, program, role):
            # expected bytes
            def norm(raw):
                return raw if raw.endswith(eol) else raw + "\n"     # the reader terminates an unterminated last record with a plain newline
            exp_records = []
            for i, ov in state:
                raw = norm(raws[i])
                if ov:
                    body = raw[:-len(eol)] if raw.endswith(eol) else raw[:-1]
                    cols = body.split("\t")
                    ncols = len(FORMATS[fname].fields) if fname != "sam" else len(cols)
                    for c, tx in ov.items():
                        cols[c] = tx
                    if fname == "vcf":
                        cols = cols[:8]
                    raw = "\t".join(cols) + (eol if raw.endswith(eol) else "\n")
                exp_records.append(raw)
            header = fc["header"]
            expected = header + "".join(exp_records)
            out = ctx.path("out" + fmt.suffix)
            wit = {"format": fname, "eol": "crlf" if eol != "\n" else "lf", "final_newline": case["final_newline"], "noncanon": case["noncanon"], "chunked": case["chunked"], "program": program,
                   "source": fc["data"].decode("latin1")[:1500], "seed": case["seed"]}
            tag = "%s%s" % ("+crlf" if eol != "\n" else "", "+replace" if replaced_any else "")
            nontriv = (fc["data"], case["chunked"], repr(program)) if state and len(program) >= 1 else None
            try:
                with bnp.open(out, "w", buffer_type=bt) as f:
                    f.write(t)
                got = open(out, "rb").read().decode("latin1")
            except Exception as e:
                if not originates_in_library(e):
                    raise
                et, site = exc_site(e)
                ctx.judged("write:" + fname, nontriv)
                ctx.violation("%s%s/write-raised:%s@%s" % (fname, tag, et, site), "writing the selected records raised %s: %s" % (et, str(e)[:120]), wit)
                return
            concatenated = any(step[0].startswith("concat") for step in program)

            def lenient(text):
                """after a concatenation or replacement only the fields of the entry type must keep their text: line ends and the
                FASTQ '+name' line are not fields"""
                text = text.replace("\r\n", "\n")
                if fname == "fastq":
                    lines = text.split("\n")
                    lines = [("+" if (j % 4 == 2 and l.startswith("+")) else l) for j, l in enumerate(lines)]
                    text = "\n".join(lines)
                return text
            if not state:
                # nothing selected: only a header may be written
                ok = got in ("", header, header.replace("\r\n", "\n"))
            elif concatenated or replaced_any:
                ok = lenient(got) == lenient(expected)
                if ok and got != expected:
                    ctx.observe("line-ends-or-plus-line-normalised-after-concatenate/replace:%s" % fname)
            else:
                ok = got == expected
            if fname == "gtf" and not ok and (case["noncanon"] or eol != "\n"):
                # GTF is never lazy: records are re-rendered.  If only spelling / line ends differ this is the listed known finding;
                # different VALUES are a different violation.
                def canon_gtf(text):
                    out = []
                    for line in text.replace("\r\n", "\n").split("\n"):
                        c = line.split("\t")
                        if len(c) >= 5:
                            try:
                                c[3], c[4] = str(int(c[3])), str(int(c[4]))
                            except ValueError:
                                pass
                        out.append("\t".join(c))
                    return "\n".join(out)
                same_values = canon_gtf(got) == canon_gtf(expected)
                ctx.check("write:gtf", False, "gtf/not-read-lazily:%s" % ("source-spelling-or-line-ends-not-preserved" if same_values else "values-differ"),
                          "GTF records re-rendered: got %r expected %r" % (got[-200:], expected[-200:]), dict(wit, got=got[-900:], expected=expected[-900:]), nontriv)
                return
            ctx.check("write:" + fname, ok, "%s%s/bytes-differ-from-selected-source-records%s" % (fname, tag, classify(got, expected, header, eol, state)),
                      "written bytes differ from the selected source records: got %r expected %r" % (got[-220:], expected[-220:]), dict(wit, got=got[-900:], expected=expected[-900:]), nontriv)

        # model state: list of (source record index, {column: new text})
        base_t, base_idx = parts[r.randrange(len(parts))]
        t = base_t
        state = [(i, {}) for i in base_idx]
        program = []
        replaced_any = False
        earlier = [(t, list(state), False, [])]          # tables that stay alive while the program continues (parent objects)
        for _ in range(r.randint(1, maxsteps)):
            if program and (earlier[-1][3] != program):
                earlier.append((t, list(state), replaced_any, list(program)))
            if program and program[-1] != ["write"] and r.random() < 0.12:
                # what the program holds now (or a slice of it) is written out and judged; the program goes on with the same objects
                if r.random() < 0.6 or len(state) < 2:
                    judge_write(t, list(state), replaced_any, list(program) + ["(intermediate write)"], "intermediate")
                else:
                    a_ = r.randint(0, len(state) - 1)
                    b_ = r.randint(a_ + 1, len(state))
                    judge_write(t[a_:b_], list(state)[a_:b_], replaced_any, list(program) + [["slice", a_, b_, None], "(intermediate write of a slice)"], "intermediate")
                program.append(["write"])
                ctx.count("intermediate_writes")
                continue
            kind = r.random()
            if kind < 0.15 and state:
                # a field is parsed (of the table or of a slice of it, which shares the table's buffers) and the value thrown away:
                # reading a column must not change what a later write emits
                import dataclasses
                target = t if r.random() < 0.5 else t[:max(1, len(state) // 2)]
                try:
                    f = r.choice([fl.name for fl in dataclasses.fields(target)])
                    v = getattr(target, f)
                    if dataclasses.is_dataclass(v):
                        sub = r.choice([fl.name for fl in dataclasses.fields(v)])
                        v = getattr(v, sub)
                        f = "%s.%s" % (f, sub)
                    len(v)
                    ctx.count("access_steps")
                except Exception as e:
                    if not originates_in_library(e):
                        raise
                    ctx.observe("field-access-raised(C02's business):%s" % type(e).__name__)
                    return
                program.append(["access", f, "whole" if target is t else "slice"])
                continue
            if kind < 0.6 or not state:
                sel = gen_selection(r, len(state))
                t = apply_sel_real(t, sel)
                state = apply_sel_model(state, sel)
                program.append(list(sel))
            elif kind < 0.8:
                # concatenate with a selection of the same chunk or of another chunk
                ot, oidx = parts[r.randrange(len(parts))]
                sel = gen_selection(r, len(oidx))
                other = apply_sel_real(ot, sel)
                ostate = apply_sel_model([(i, {}) for i in oidx], sel)
                if replaced_any:
                    continue        # concatenating tables with different replaced columns is C05's territory; keep C04 to its statement
                if r.random() < 0.5:
                    t, state = np.concatenate([t, other]), state + ostate
                    program.append(["concat-right", list(sel)])
                else:
                    t, state = np.concatenate([other, t]), ostate + state
                    program.append(["concat-left", list(sel)])
            else:
                fields = SOURCES[fname]
                if fname in ("sam", "fastq", "fasta2") and state and r.random() < 0.35:
                    # the other way of replacing a field: a sequence function applied to the table replaces its sequence column
                    seqcol = {"sam": 9, "fastq": 1, "fasta2": 1}[fname]
                    def cur_seq(i_, ov_):
                        if seqcol in ov_:
                            return ov_[seqcol]
                        raw_ = raws[i_]
                        return raw_.split(eol)[1] if fname in ("fastq", "fasta2") else raw_[:-len(eol)].split("\t")[seqcol] if raw_.endswith(eol) else raw_.split("\t")[seqcol]
                    comp_ = {"A": "T", "C": "G", "G": "C", "T": "A", "N": "N", "a": "t", "c": "g", "g": "c", "t": "a", "n": "n"}
                    if fname != "sam" or any(set(cur_seq(i_, ov_)) - set(comp_) for i_, ov_ in state):
                        continue
                    try:
                        t = bnp.sequence.get_reverse_complement(t)
                    except Exception as e:
                        if not originates_in_library(e):
                            raise
                        ctx.observe("get_reverse_complement(table)-raised:%s" % type(e).__name__)
                        return
                    state = [(i_, {**ov_, seqcol: "".join(comp_[ch] for ch in reversed(cur_seq(i_, ov_))).upper()}) for i_, ov_ in state]
                    replaced_any = True
                    program.append(["reverse-complement-of-the-table"])
                    ctx.count("sequence_function_replacements")
                    continue
                if not fields or not state:
                    continue
                names = r.sample(list(fields), r.randint(1, min(2, len(fields))))
                kw = {}
                for f in names:
                    col, k = fields[f]
                    if k in ("int", "pos"):
                        vals = [r.choice([0, 7, 10, 999, 12345, r.randint(0, 10 ** 9), r.choice([2 ** 31 - 2, 2 ** 31 - 1, 2 ** 31, 2400000000, 2 ** 32, 10 ** 12])]) for _ in state]     # coordinates beyond 32 bits included
                        kw[f] = np.array(vals, dtype=int)
                        texts = [str(v + 1) if k == "pos" else str(v) for v in vals]
                    else:
                        vals = ["new%d" % i for i in range(len(state))]
                        from bionumpy.string_array import as_string_array
                        kw[f] = as_string_array(vals)       # the column's own array type
                        texts = vals
                    state = [(i, {**ov, col: tx}) for (i, ov), tx in zip(state, texts)]
                try:
                    t = bnp.replace(t, **kw)
                except Exception as e:
                    if not originates_in_library(e):
                        raise
                    ctx.observe("replace-raised:%s" % type(e).__name__)
                    return
                replaced_any = True
                program.append(["replace", names])
        judge_write(t, state, replaced_any, program, "final")
        # tables created on the way (parents of later selections / originals of later replacements) must still write THEIR records
        for (pt, pstate, prepl, pprog) in r.sample(earlier, min(2, len(earlier))):
            if pprog != program:
                judge_write(pt, pstate, prepl, pprog + ["(written after: %r)" % (program[len(pprog):],)], "earlier-table")

    def classify(got, expected, header, eol, state):
        if got == expected:
            return ""
        if header and not got.startswith(header):
            return ":header"
        if got.replace(eol, "") == expected.replace(eol, "") or got.replace("\n", "").replace("\r", "") == expected.replace("\n", "").replace("\r", ""):
            return ":line-ends-only"
        return ""

    def bam_program(case):
        """BAM source (independent spec-level encoder R2): selections, repetitions and concatenations written back must decode to exactly
        the selected records' bytes in the selected order (fields cannot be replaced in BAM tables)."""
        from bnpmon.models import bam as R2
        from bnpmon.workloads.C16 import gen_record
        r = random.Random(case["seed"])
        n_refs = r.choice([1, 2, 3])
        refs = [("chr%d" % (i + 1), 10 ** 6) for i in range(n_refs)]
        n = r.randint(1, ctx.pick(8, 30))
        recs = [gen_record(r, n_refs) for _ in range(n)]
        payload_len = sum(len(R2.encode_record(x)) for x in recs)
        data, _ = R2.encode_bam(refs, recs, sorted(r.randint(1, max(1, payload_len)) for _ in range(r.choice([0, 2]))))
        path = ctx.path("c04.bam")
        with open(path, "wb") as f:
            f.write(data)
        parts = []
        if case["chunked"] and n >= 2:
            k = max(len(R2.encode_record(x)) for x in recs) + r.randint(0, 60)
            chunks = list(bnp.open(path).read_chunks(min_chunk_size=k))
            sizes = [len(c) for c in chunks]
            if sum(sizes) != n:
                ctx.observe("chunked-read-count-differs(C16's business)")
                return
            bounds = np.cumsum([0] + sizes).tolist()
            parts = [(c, list(range(a, b))) for c, a, b in zip(chunks, bounds[:-1], bounds[1:])]
        else:
            parts = [(bnp.open(path).read(), list(range(n)))]
        program = []
        def write_and_judge(t, state, when):
            wit = {"format": "bam", "seed": case["seed"], "n": n, "chunked": case["chunked"], "program": list(program), "written": when, "expected_names": [recs[i]["name"][:12] for i in state][:10]}
            nontriv = (data, repr(program)) if len(state) >= 2 else None
            concatenated = any(isinstance(p[0], str) and p[0].startswith("concat") for p in program)
            tag = "bam%s%s" % ("+concat" if concatenated else "", "+after-an-earlier-write" if any(p == ["write"] for p in (program if when == "final" else program[:-1])) else "")
            out = ctx.path("c04o.bam")
            try:
                with bnp.open(out, "w") as f:
                    f.write(t)
                written = open(out, "rb").read()
            except Exception as e:
                if not originates_in_library(e):
                    raise
                et, site = exc_site(e)
                ctx.judged("write:bam", nontriv)
                ctx.violation("%s/write-raised:%s@%s" % (tag, et, site), "writing a selection of BAM records raised %s: %s" % (et, str(e)[:100]), wit)
                return False
            try:
                refs2, recs2 = R2.decode_bam(written)
                got = [x["raw"] for x in recs2]
            except Exception as e:
                ctx.check("write:bam", False, "%s/output-is-not-a-bam" % tag, "the written file is not decodable as BAM: %s" % str(e)[:80], wit, nontriv)
                return False
            exp = [R2.encode_record(recs[i]) for i in state]
            return ctx.check("write:bam", got == exp and (refs2 == refs or not state), "%s/bytes-differ-from-selected-source-records" % tag,
                             "BAM written from the program decodes to %d records (%d expected) / other bytes" % (len(got), len(exp)), dict(wit, got_names=[x["name"][:12] for x in recs2][:10]), nontriv)

        t, state = parts[r.randrange(len(parts))]
        for _ in range(r.randint(1, maxsteps)):
            if r.random() < 0.65 or not state:
                sel = gen_selection(r, len(state))
                t, state = apply_sel_real(t, sel), apply_sel_model([(i, {}) for i in state], sel)
                state = [i for i, _ in state]
                program.append(list(sel))
            else:
                ot, oidx = parts[r.randrange(len(parts))]
                sel = gen_selection(r, len(oidx))
                other, ostate = apply_sel_real(ot, sel), [i for i, _ in apply_sel_model([(i, {}) for i in oidx], sel)]
                if r.random() < 0.5:
                    t, state = np.concatenate([t, other]), state + ostate
                    program.append(["concat-right", list(sel)])
                else:
                    t, state = np.concatenate([other, t]), ostate + state
                    program.append(["concat-left", list(sel)])
            if r.random() < 0.2 and len(state):
                try:
                    getattr(t, r.choice(["name", "flag", "cigar_op", "sequence", "quality"]))     # a field parsed before the write
                    program.append(["access"])
                except Exception as e:
                    if not originates_in_library(e):
                        raise
                    ctx.observe("bam-field-access-raised(C16's business):%s" % type(e).__name__)
                    return
            if r.random() < 0.25:
                # what the program holds now is written out (and judged), and the program goes on with the same object
                program.append(["write"])
                ctx.count("bam_intermediate_writes")
                if write_and_judge(t, state, "intermediate") is False:
                    return
        write_and_judge(t, state, "final")

    for i in range(ctx.share(ctx.pick(640, 8000))):
        ctx.run_case(bam_program, {"seed": rng.randrange(2 ** 40), "chunked": rng.random() < 0.4})
    ctx.floor("judged:write:bam", ctx.pick(100, 2000))

    def stream_of_selections(case):
        """the file is read in chunks (plain or gzip), a selection is taken from every chunk (some select nothing) and the STREAM of selections is handed
        to the writer in one call; or the chunk tables are kept and concatenated later: the output is the text of the selected records, in order"""
        from bionumpy.streams import NpDataclassStream
        import gzip as _gz
        r = random.Random(case["seed"])
        fname = case["fmt"]
        fmt = FORMATS[fname]
        style = {"eol": "\n", "final_newline": True, "noncanon": r.random() < 0.6, "plusname": True, "tags": True, "score_mode": "int"}
        n = r.randint(6, ctx.pick(16, 40))
        fc = make_file(fname, r, n, r.choice(["tiny", "normal"]), style)
        raws = list(fc["raws"])
        gz = r.random() < 0.5
        path = ctx.path("sel" + fmt.suffix + (".gz" if gz else ""))
        with (_gz.open(path, "wb") if gz else open(path, "wb")) as f:
            f.write(fc["data"])
        bt = tables.get_buffer_type(fmt.buffer)
        longest = max(len(x) for x in raws) + 2
        k = r.randint(longest, longest * 3)
        keep = [r.random() < 0.6 for _ in range(n)]
        mode = case["mode"]
        wit = {"format": fname, "gzip": gz, "k": k, "mode": mode, "keep": keep, "seed": case["seed"], "source": fc["data"].decode("latin1")[:1200]}
        out = ctx.path("selout" + fmt.suffix)
        try:
            chunks = bnp.open(path, buffer_type=bt).read_chunks(min_chunk_size=k)
            if mode == "stream":
                # a run of chunks in the middle selects nothing
                state = {"row": 0}
                lo = r.randint(1, max(1, n // 2)); hi = r.randint(lo, n)
                for i in range(lo, hi):
                    keep[i] = False

                def sel_gen():
                    for c in chunks:
                        m = np.array(keep[state["row"]:state["row"] + len(c)], dtype=bool)
                        state["row"] += len(c)
                        yield c[m]
                with bnp.open(out, "w", buffer_type=bt) as f:
                    f.write(NpDataclassStream(sel_gen(), dataclass=chunks.dataclass if hasattr(chunks, "dataclass") else None))
            else:
                held = list(chunks)             # every chunk table is kept while the later chunks are read
                sizes = [len(c) for c in held]
                if sum(sizes) != n:
                    ctx.observe("chunked-read-count-differs(C01's business)")
                    return
                joined = np.concatenate(held) if len(held) > 1 else held[0]
                with bnp.open(out, "w", buffer_type=bt) as f:
                    f.write(joined[np.array(keep, dtype=bool)])
                wit["chunks"] = sizes
            got = open(out, "rb").read().decode("latin1")
        except Exception as e:
            if not originates_in_library(e):
                raise
            et, site = exc_site(e)
            ctx.judged("write:" + fname, None)
            ctx.violation("%s/%s/write-raised:%s@%s" % (fname, "stream-of-selections" if mode == "stream" else "kept-chunks-concatenated", et, site), "writing %s raised %s: %s" % (mode, et, str(e)[:120]), wit)
            return
        expected = fc["header"] + "".join(x for x, kp in zip(raws, keep) if kp)
        ok = got == expected or (not any(keep) and got in ("", fc["header"])) or (mode != "stream" and fname == "fastq" and got.replace("\n+\n", "\n+X\n") == expected.replace("\n+\n", "\n+X\n"))
        if not ok and mode != "stream":
            # after a concatenation only the fields of the entry type must keep their text (see `lenient` above): compare without the FASTQ '+name' line
            import re as _re
            ok = _re.sub(r"\n\+[^\n]*\n", "\n+\n", got) == _re.sub(r"\n\+[^\n]*\n", "\n+\n", expected)
        ctx.check("write:" + fname, ok, "%s/%s/bytes-differ-from-selected-source-records" % (fname, "stream-of-selections" if mode == "stream" else "kept-chunks-concatenated"),
                  "%s written: got %d bytes, the selected records have %d; got ends %r, expected ends %r" % (mode, len(got), len(expected), got[-80:], expected[-80:]), dict(wit, got=got[-600:], expected=expected[-600:]),
                  (fc["data"], k, tuple(keep), mode))
        ctx.count("stream_or_kept_chunk_writes")

    def fasta_default_buffer(case):
        """two-line FASTA opened the default way (bnp.open('x.fa'): the multi-line FASTA buffer) and written back through the default writer; sequences of at most 80 letters
        (80 exactly included) come back byte for byte.  Other FASTA files (short lines) are read in the same process in between."""
        r = random.Random(case["seed"])
        n = r.randint(1, 8)
        recs = [("s%d%s" % (i, r.choice(["", " desc", "_x"])), "".join(r.choice("ACGT") for _ in range(r.choice([1, 2, 30, 60, 79, 80, 80, r.randint(1, 80)])))) for i in range(n)]
        raws = [">%s\n%s\n" % x for x in recs]
        path = ctx.path("d.fa")
        with open(path, "w") as f:
            f.write("".join(raws))
        t = bnp.open(path).read()
        if r.random() < 0.6:
            other = ctx.path("o.fa")
            w_ = r.choice([5, 30, 61])
            with open(other, "w") as f:
                f.write(">o1\n" + "\n".join(("ACGT" * 40)[i:i + w_] for i in range(0, 100, w_)) + "\n>o2\nAC\n")
            bnp.open(other).read()
            ctx.count("another_fasta_read_in_between")
        kind = r.choice(["whole", "mask", "fancy", "slice", "reverse"])
        idx = list(range(n))
        if kind == "mask":
            mk = [r.random() < 0.6 for _ in range(n)]
            sel, idx = t[np.array(mk, dtype=bool)], [i for i in idx if mk[i]]
        elif kind == "fancy":
            idx = [r.randrange(n) for _ in range(r.randint(1, 5))]
            sel = t[np.array(idx, dtype=int)]
        elif kind == "slice":
            a_ = r.randint(0, n - 1); idx = idx[a_:]; sel = t[a_:]
        elif kind == "reverse":
            idx = idx[::-1]; sel = t[::-1]
        else:
            sel = t
        out = ctx.path("dout.fa")
        wit = {"format": "fasta(default buffer)", "seed": case["seed"], "selection": kind, "lengths": [len(x[1]) for x in recs]}
        try:
            with bnp.open(out, "w") as f:
                f.write(sel)
            got = open(out).read()
        except Exception as e:
            if not originates_in_library(e):
                raise
            et, site = exc_site(e)
            ctx.violation("fasta-default-buffer/write-raised:%s@%s" % (et, site), "writing a selection of a two-line FASTA read the default way raised %s: %s" % (et, str(e)[:100]), wit)
            return
        expected = "".join(raws[i] for i in idx)
        ctx.check("write:fasta-default", got == expected, "fasta-default-buffer/bytes-differ-from-selected-source-records", "got %r, the selected records are %r" % (got[-200:], expected[-200:]), dict(wit, got=got[-600:], expected=expected[-600:]), (tuple(recs), kind, tuple(idx)))

    for i in range(ctx.share(ctx.pick(320, 4000))):
        ctx.run_case(fasta_default_buffer, {"seed": rng.randrange(2 ** 40)})

    def rechunked_stream(case):
        """the chunk tables of a file re-chunked to n lines each with the line re-chunker and the stream written in one call: the bytes of the file"""
        from bionumpy.io.parser import chunk_lines
        from bionumpy.streams import NpDataclassStream
        r = random.Random(case["seed"])
        fname = case["fmt"]
        fmt = FORMATS[fname]
        fc = make_file(fname, r, r.randint(5, 16), r.choice(["tiny", "normal"]), {"eol": "\n", "final_newline": True, "noncanon": True, "plusname": True, "tags": True, "score_mode": "int"})
        path = ctx.path("rc" + fmt.suffix)
        with open(path, "wb") as f:
            f.write(fc["data"])
        bt = tables.get_buffer_type(fmt.buffer)
        longest = max(len(x) for x in fc["raws"]) + 2
        k = r.randint(longest, longest * 3)
        nl = r.randint(1, 7)
        out = ctx.path("rcout" + fmt.suffix)
        wit = {"format": fname, "k": k, "n_lines": nl, "seed": case["seed"], "source": fc["data"].decode("latin1")[:1000]}
        try:
            chunks = bnp.open(path, buffer_type=bt).read_chunks(min_chunk_size=k)
            pieces = list(chunk_lines(iter(chunks), nl))
            with bnp.open(out, "w", buffer_type=bt) as f:
                for pc in pieces:
                    f.write(pc)
            got = open(out, "rb").read().decode("latin1")
        except Exception as e:
            if not originates_in_library(e):
                raise
            et, site = exc_site(e)
            ctx.violation("%s/re-chunked/write-raised:%s@%s" % (fname, et, site), "writing re-chunked tables raised %s: %s" % (et, str(e)[:100]), wit)
            return
        expected = fc["data"].decode("latin1")
        import re as _re
        same_ = got == expected or (fname == "fastq" and _re.sub(r"\n\+[^\n]*\n", "\n+\n", got) == _re.sub(r"\n\+[^\n]*\n", "\n+\n", expected))
        ctx.check("write:" + fname, same_, "%s/re-chunked/bytes-differ-from-the-file" % fname, "chunks of %d bytes re-chunked to %d lines and written: %d bytes, the file has %d" % (k, nl, len(got), len(expected)), dict(wit, got=got[-500:], expected=expected[-500:]), (fc["data"], k, nl))
        ctx.count("rechunked_streams")

    RC_FORMATS = ["bed6", "bed3", "bdg", "vcf", "sam", "narrowpeak"]
    for i in range(ctx.share(ctx.pick(240, 3000))):
        ctx.run_case(rechunked_stream, {"fmt": RC_FORMATS[i % len(RC_FORMATS)], "seed": rng.randrange(2 ** 40)})

    SEL_FORMATS = [f for f in SOURCES if f not in ("gtf", "bed12")]
    for i in range(ctx.share(ctx.pick(320, 4000))):
        ctx.run_case(stream_of_selections, {"fmt": SEL_FORMATS[i % len(SEL_FORMATS)], "seed": rng.randrange(2 ** 40), "mode": "stream" if i % 2 else "kept"})

    fmts = list(SOURCES)
    total = ctx.share(ctx.pick(400 * len(fmts), 6000 * len(fmts)))
    for i in range(total):
        fname = fmts[i % len(fmts)]
        ctx.run_case(one, {"fmt": fname, "seed": rng.randrange(2 ** 40), "eol": "\r\n" if rng.random() < 0.25 else "\n", "final_newline": rng.random() < 0.8, "noncanon": rng.random() < 0.6, "chunked": rng.random() < 0.4,
                           "huge": fname in ("bed6", "vcf") and rng.random() < 0.04})
    ctx.sample({"format": "bed6", "source": "chr1\t007\t+12\tr0\t05\t+\n...", "program": [["fancy", [2, 2, 0]], ["concat-right", ["slice", None, None, -1]], ["replace", ["score"]]]})
    ctx.floor("judged:write:bed6", ctx.pick(20, 300))
    ctx.floor("judged:write:sam", ctx.pick(20, 300))
    ctx.floor("access_steps", ctx.pick(20, 400))       # the un-decoded / lazy-view variants must actually have run


def replay(ctx, w):
    pass
