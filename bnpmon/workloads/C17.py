"""C17 — indexed FASTA random access agrees with the file.

Boundary monitor against an independent faidx model (R7: index rows computed while the FASTA is written) and Python slicing,
with EVERY interval [a,b) of every record fetched on both code paths (string chromosomes / StringEncoding chromosomes).
"""
import os
import random

import numpy as np

RULE = ("FASTA files with 1..4 records of length 1..25 wrapped at every width 1..W (last line short or full, single-line records, names with descriptions), "
        "index created by the library and index supplied faidx-style by the harness; for each file: .fai rows, get_contig_lengths, f[name], and "
        "get_interval_sequences for EVERY 0<=a<b<=len (batched and one by one) on both code paths; thorough adds a multi-chunk (12 MB) FASTA; "
        "distinct = (file bytes, index source, query); non-trivial = record spans >= 2 lines or the interval crosses a line break")
ASSUMPTIONS = ["faidx semantics: NAME (up to first blank), LENGTH, OFFSET of first base, LINEBASES, LINEWIDTH; Python slicing of the generating sequences is the reference"]
EXHAUSTIVE_CORE = "all intervals [a,b) of every record of every generated file"


def preload():
    import bionumpy  # noqa
    import bionumpy.io.indexed_fasta, bionumpy.io.indexed_files, bionumpy.genomic_data.genomic_sequence  # noqa


def make_fasta(rng, n, maxlen, width, eol="\n", descriptions=True, final_newline=True):
    recs, text, index = [], "", []
    order = list(range(n))
    rng.shuffle(order)          # file order differs from the sorted order of the names
    for i in order:
        name = "c%d%s" % (i, rng.choice(["", "x", "_alt", ".1"]))
        desc = rng.choice([" desc", " len=5 x", "\tlength=13", "\tx y", "  two spaces", " substitution A>G at 7", " gene->protein >x", " a>"]) if descriptions and rng.random() < 0.4 else ""
        L = rng.choice([1, width - 1, width, width + 1, 2 * width, 2 * width + 1, rng.randint(1, maxlen)])
        L = max(1, min(L, maxlen))
        s = "".join(rng.choice("ACGTNacgt") for _ in range(L))
        header = ">" + name + desc + eol
        offset = len(text) + len(header)
        lines = [s[j:j + width] for j in range(0, L, width)]
        text += header + "".join(l + eol for l in lines)
        index.append((name, L, offset, len(lines[0]), len(lines[0]) + len(eol)))
        recs.append((name, s))
    if not final_newline:
        text = text[:-len(eol)]
    return recs, text, index


def run(ctx):
    import bionumpy as bnp
    from bionumpy.datatypes import Interval
    from bionumpy.io.indexed_fasta import IndexedFasta
    from bionumpy.encodings.string_encodings import StringEncoding
    from bnpmon.util import text_rows
    rng = ctx.rng

    def check_file(c):
        r = random.Random(c["seed"])
        recs, text, index = make_fasta(r, c["n"], c["maxlen"], c["width"], c["eol"], True, c["final_newline"])
        # half of the cases write their FASTA to a path that held another FASTA before (the old index file is removed, as a user replacing a file would)
        fname_ = ["x.fa", "x.fa", "ref.gz.fa", "sample1.bam.fasta", "x.fasta", "a.b.fa"][c["seed"] % 6]        # the name of a FASTA file may contain other dotted parts
        if c.get("genome") and c["seed"] % 4:
            # the genome route is driven mostly on ONE path that held other references before (a pipeline that rebuilds its reference in place)
            fname_ = "x.fa"
        path = ctx.reuse_path(fname_) if (c["seed"] % 2 or (c.get("genome") and c["seed"] % 4)) else ctx.path(fname_)
        fai = path + ".fai"
        if os.path.exists(fai):
            os.remove(fai)
        with open(path, "w", newline="") as f:
            f.write(text)
        tag = "crlf" if c["eol"] != "\n" else ("nonl" if not c["final_newline"] else "lf")
        src = c["index"]
        if src == "harness":
            fai_rows = list(index)
            if c["seed"] % 3 == 0:
                # an index keyed by name need not list the records in file order (a sorted .fai, an index in karyotype order)
                fai_rows = sorted(fai_rows) if c["seed"] % 2 else fai_rows[::-1]
                ctx.count("supplied_index_in_another_order_than_the_file")
            with open(fai, "w") as f:
                for row in fai_rows:
                    f.write("\t".join(map(str, row)) + "\n")
            idx = IndexedFasta(path)
        else:
            idx = bnp.open_indexed(path)
            if not os.path.exists(fai):
                # the same path held another FASTA a moment ago (every case of a shard writes x.fa anew): an index must be built for THIS file
                ctx.check("fai-rows", False, "fai-index-rows:no-index-written-for-a-path-used-before", "open_indexed(%s) wrote no .fai for the file now at that path" % os.path.basename(path), dict(c, text=text), None)
                rows = []
            else:
                rows = [l.rstrip("\n").split("\t") for l in open(fai)]
            got = [(x[0], int(x[1]), int(x[2]), int(x[3]), int(x[4])) for x in rows]
            multi = any(len(s) > c["width"] for _, s in recs)
            cols = ["name", "length", "offset", "linebases", "linewidth"]
            if not c["final_newline"] and got and len(recs[-1][1]) <= c["width"] and len(got) == len(index):
                # the last record is one unterminated line: the file does not determine its bytes-per-line (any value >= its length serves random access)
                if got[-1][4] >= got[-1][3]:
                    got[-1] = got[-1][:4] + (index[-1][4],)
            diffcols = sorted({cols[i] for a, b in zip(got, index) for i in range(5) if a[i] != b[i]}) or (["row-count"] if len(got) != len(index) else [])
            if diffcols == ["name"] and all(a[0].split()[0] == b[0] for a, b in zip(got, index)):
                diffcols = ["name-includes-description"]
            ctx.check("fai-rows", got == index, "fai-index-rows:%s:%s" % ("+".join(diffcols), "crlf" if tag == "crlf" else "lf"), "written .fai %r differs from faidx model %r" % (got[:2], index[:2]), dict(c, text=text, got=got, expected=index), (text, "fai") if multi else None)
        d = dict(recs)
        lens = idx.get_contig_lengths()
        multi = any(len(s) > c["width"] for _, s in recs)
        ctx.check("contig-lengths", {k: int(v) for k, v in lens.items()} == {n: len(s) for n, s in recs}, "get_contig_lengths", "get_contig_lengths %r != true lengths %r" % (dict(lens), {n: len(s) for n, s in recs}),
                  dict(c, text=text, got={k: int(v) for k, v in lens.items()}), (text, src, "lens") if multi else None)
        # fetch every contig first and keep the results, compare afterwards (results must be independent objects)
        held = {k: v for k, v in idx.items()}
        held2 = {name: idx[name] for name, _ in reversed(recs)}
        ok = sorted(held) == sorted(nm for nm, _ in recs) and (list(held) == [nm for nm, _ in recs] or src == "harness") and all(held[nm].to_string() == sq and held2[nm].to_string() == sq for nm, sq in recs)
        ctx.check("whole-contig", ok, "whole-contig-fetch:results-kept-while-fetching-others", "dict(fasta.items()) gave %r, expected %r" % ({k: v.to_string() for k, v in held.items()}, dict(recs)), dict(c, text=text), (text, src, "items") if len(recs) >= 2 else None)
        for name, s in recs:
            got = idx[name].to_string()
            ctx.check("whole-contig", got == s, "whole-contig-fetch:%s" % tag, "f[%r] gave %r expected %r" % (name, got, s), dict(c, text=text, name=name, got=got), (text, src, name) if len(s) > c["width"] else None)
        # every interval, batched, both paths
        names = [n for n, _ in recs]
        all_iv = [(n, a, b) for n, s in recs for a in range(len(s)) for b in range(a + 1, len(s) + 1)]
        if len(all_iv) > c["max_iv"]:
            all_iv = r.sample(all_iv, c["max_iv"])
        exp = [d[n][a:b] for n, a, b in all_iv]
        for pathkind in ("string", "stringencoding"):
            if pathkind == "string":
                chrom = [n for n, a, b in all_iv]
            else:
                chrom = bnp.as_encoded_array([n for n, a, b in all_iv], StringEncoding(names))
            iv = Interval(chrom, np.array([a for n, a, b in all_iv]), np.array([b for n, a, b in all_iv]))
            res = text_rows(idx.get_interval_sequences(iv))
            bad = [(q, g, e) for q, g, e in zip(all_iv, res, exp) if g != e]
            ctx.count("interval_fetches", len(all_iv))
            for q, e in zip(all_iv[:2000], exp):
                w = c["width"]
                ctx.judged("interval:" + pathkind, (text, src, q) if (q[1] // w != (q[2] - 1) // w) else None)
            if bad or len(res) != len(exp):
                q, g, e = bad[0] if bad else (None, len(res), len(exp))
                ctx.violation("interval-fetch:%s:%s" % (pathkind, tag), "get_interval_sequences(%r) gave %r expected %r (width %d)" % (q, g, e, c["width"]), dict(c, text=text, query=q, got=g, expected=e, n_bad=len(bad)))
        # the same intervals with coordinates held in another integer type that fits them (the property quantifies over intervals, not over int64 columns)
        top = max(b for n, a, b in all_iv)
        dts = [dt for dt in (np.int8, np.uint8, np.int16, np.uint16, np.int32, np.uint32, np.uint64) if top <= np.iinfo(dt).max]
        dt = r.choice(dts)
        sub = r.sample(all_iv, min(40, len(all_iv)))
        for pathkind in ("string", "stringencoding"):
            chrom = [n for n, a, b in sub] if pathkind == "string" else bnp.as_encoded_array([n for n, a, b in sub], StringEncoding(names))
            kind = "unsigned-64-bit" if dt is np.uint64 else ("8-bit" if np.dtype(dt).itemsize == 1 else "other-width")
            try:
                res = text_rows(idx.get_interval_sequences(Interval(chrom, np.array([a for n, a, b in sub], dtype=dt), np.array([b for n, a, b in sub], dtype=dt))))
            except (OverflowError, TypeError, ValueError) as e:
                res = "%s: %s" % (type(e).__name__, str(e)[:80])
            ctx.count("interval_fetches_other_dtype", len(sub))
            ctx.check("interval:dtype", res == [d[n][a:b] for n, a, b in sub], "interval-fetch:coordinates-of-%s-integer-type:%s" % (kind, pathkind),
                      "get_interval_sequences with %s coordinates gave %r" % (np.dtype(dt).name, res if isinstance(res, str) else res[:3]), dict(c, text=text, dtype=np.dtype(dt).name, queries=sub[:5]), (text, src, np.dtype(dt).name, pathkind))
        # one by one for a sample (different batch shapes)
        for q in r.sample(all_iv, min(5, len(all_iv))):
            iv = Interval([q[0]], [q[1]], [q[2]])
            g = text_rows(idx.get_interval_sequences(iv))
            ctx.check("interval:single", g == [d[q[0]][q[1]:q[2]]], "interval-fetch:single:%s" % tag, "single fetch %r gave %r" % (q, g), dict(c, text=text, query=q, got=g), (text, src, q, 1))
        # Genome route
        if c.get("genome") and c["eol"] == "\n":
            keep_all = c["seed"] % 3 == 0           # filter_function=None: every contig of the file belongs to the genome
            g = bnp.Genome.from_file(path, sort_names=bool(c["seed"] % 2), filter_function=None) if keep_all else bnp.Genome.from_file(path, sort_names=bool(c["seed"] % 2))       # genome order may differ from the file order
            seq = g.read_sequence()
            kept = [q for q in all_iv if keep_all or "_" not in q[0]]          # Genome.from_file ignores '_' contigs by default
            if keep_all:
                ctx.count("genomes_from_file_without_a_filter")
            for nm, sq in recs:
                if "_" in nm and not keep_all:
                    continue
                first = seq[nm]
                if len(first) and getattr(first.raw(), "flags", None) is not None and first.raw().flags.writeable:
                    first[0:1] = "N" if sq[0].upper() != "N" else "A"        # the caller edits what it fetched
                again = seq[nm].to_string()
                ctx.check("whole-contig", again.upper() == sq.upper(), "whole-contig-fetch:refetch-after-the-caller-edited-the-first-result", "second fetch of %s gave %r, the file has %r" % (nm, again[:12], sq[:12]), dict(c, text=text, name=nm), (text, nm, "refetch"))
            # intervals handed over as a plain table (names as text), contigs the genome ignores included: one row back per interval
            qs_ = r.sample(all_iv, min(8, len(all_iv)))
            try:
                res_ = [t.upper() for t in text_rows(seq.extract_intervals(Interval([q[0] for q in qs_], [q[1] for q in qs_], [q[2] for q in qs_])))]
            except Exception as e:
                from bnpmon.ctx import originates_in_library
                if not originates_in_library(e):
                    raise
                res_ = None
                ctx.observe("extract_intervals(plain table) raised %s%s" % (type(e).__name__, " (a contig the genome ignores is among them)" if any("_" in q[0] for q in qs_) else ""))
            if res_ is not None:
                ctx.count("genome_route_plain_table")
                ctx.check("genome-route", res_ == [d[n][a:b].upper() for n, a, b in qs_], "interval-fetch:genome-route:plain-interval-table", "read_sequence().extract_intervals(plain table) gave %r" % res_[:3], dict(c, text=text, queries=qs_, got=res_), (text, tuple(qs_), "plain"))
            if not kept:
                return
            gorder = list(g.get_genome_context().chrom_sizes)
            want_contigs = sorted(nm for nm, _ in recs if keep_all or "_" not in nm)
            if not ctx.check("genome-route", sorted(gorder) == want_contigs, "genome-route:contigs-of-the-genome:%s" % ("filter_function=None" if keep_all else "default-filter"), "Genome.from_file(%s) has contigs %r, the file has %r" % ("filter_function=None" if keep_all else "default filter", gorder, want_contigs),
                             dict(c, text=text, got=gorder, expected=want_contigs), (text, keep_all, "contigs")):
                return
            qs = sorted(r.sample(kept, min(8, len(kept))), key=lambda t: (gorder.index(t[0]), t[1], t[2]))
            gi = g.get_intervals(Interval([q[0] for q in qs], [q[1] for q in qs], [q[2] for q in qs]))
            res = [t.upper() for t in text_rows(seq[gi])]
            # the same through stranded intervals on the plus strand (the forward text), also when every interval is one base long
            from bionumpy.datatypes import Bed6
            for only_one in (False, True):
                qs2 = [(n_, a_, a_ + 1) for n_, a_, b_ in qs] if only_one else qs
                gs_ = g.get_intervals(Bed6([q[0] for q in qs2], [q[1] for q in qs2], [q[2] for q in qs2], ["i"] * len(qs2), [0] * len(qs2), ["+"] * len(qs2)), stranded=True)
                try:
                    rs_ = [t.upper() for t in text_rows(seq[gs_])]
                except Exception as e:
                    from bnpmon.ctx import originates_in_library
                    if not originates_in_library(e):
                        raise
                    rs_ = "raised %s" % type(e).__name__
                ctx.check("genome-route", rs_ == [d[n_][a_:b_].upper() for n_, a_, b_ in qs2], "interval-fetch:genome-route:stranded-plus%s" % (":one-base-intervals" if only_one else ""), "Genome.read_sequence()[stranded '+' intervals] gave %r" % (rs_ if isinstance(rs_, str) else rs_[:3]), dict(c, text=text, queries=qs2, got=rs_), (text, tuple(qs2), "str"))
            ctx.count("genome_route")
            ctx.check("genome-route", res == [d[n][a:b].upper() for n, a, b in qs], "interval-fetch:genome-route", "Genome.read_sequence()[intervals] gave %r" % res[:3], dict(c, text=text, queries=qs, got=res), (text, tuple(qs)))
        idx._f_obj.close()
        for p in (path, fai):
            if os.path.exists(p):
                os.remove(p)

    cases = []
    gen = random.Random(ctx.seed + 17)
    W = ctx.pick(8, 14)
    for width in range(1, W + 1):
        for rep in range(ctx.pick(3, 300)):
            cases.append({"seed": gen.randrange(2 ** 30), "n": gen.randint(1, 4), "maxlen": 25, "width": width, "eol": "\n", "final_newline": gen.random() < 0.8,
                          "index": "library" if rep % 3 else "harness", "max_iv": 2000, "genome": rep % 2 == 0})
    for rep in range(ctx.pick(24, 2000)):
        cases.append({"seed": gen.randrange(2 ** 30), "n": gen.randint(1, 3), "maxlen": 25, "width": gen.randint(1, W), "eol": "\r\n", "final_newline": gen.random() < 0.6, "index": "library", "max_iv": 2000})
    for rep in range(ctx.pick(6, 400)):
        cases.append({"seed": gen.randrange(2 ** 30), "n": gen.randint(2, 6), "maxlen": 400, "width": gen.choice([60, 70, 80]), "eol": "\n", "final_newline": True, "index": "library", "max_iv": 600, "genome": True})
    for c in ctx.mine(cases):
        ctx.run_case(check_file, c)
    ctx.sample({"case": cases[0], "meaning": "make_fasta(Random(seed), n, maxlen, width) -> file; all intervals fetched"})

    # ---- multi-chunk index (thorough): offsets must accumulate across 5 MB chunks ------------------
    if ctx.shard == 0:
        def big(_):
            r = random.Random(5 + ctx.seed)
            path = ctx.path("big.fa")
            recs, index, pos = [], [], 0
            nprng = np.random.default_rng(ctx.seed + 5)
            with open(path, "w") as f:
                for i in range(ctx.pick(12, 40)):
                    L = r.randint(900000, 1100000) if ctx.quick else r.randint(200000, 400000)
                    s = nprng.choice(np.frombuffer(b"ACGT", dtype=np.uint8), size=L).tobytes().decode()
                    h = ">big%d\n" % i
                    f.write(h)
                    off = pos + len(h)
                    body = "".join(s[j:j + 60] + "\n" for j in range(0, L, 60))
                    f.write(body)
                    pos += len(h) + len(body)
                    index.append(("big%d" % i, L, off, 60, 61))
                    recs.append(("big%d" % i, s))
            idx = bnp.open_indexed(path)
            rows = [l.rstrip("\n").split("\t") for l in open(path + ".fai")]
            got = [(x[0], int(x[1]), int(x[2]), int(x[3]), int(x[4])) for x in rows]
            ctx.check("fai-rows", got == index, "fai-index-rows:multi-chunk", "multi-chunk .fai differs from model at %r" % ([i for i, (a, b) in enumerate(zip(got, index)) if a != b][:3],), {"n": len(got)}, "big")
            d = dict(recs)
            qs = [(n, a, min(len(d[n]), a + r.randint(1, 300))) for n in d for a in [r.randrange(len(d[n])) for _ in range(5)]]
            res = text_rows(idx.get_interval_sequences(Interval([q[0] for q in qs], [q[1] for q in qs], [q[2] for q in qs])))
            ctx.check("interval:string", res == [d[n][a:b] for n, a, b in qs], "interval-fetch:multi-chunk", "fetch on multi-chunk index differs", {}, "bigq")
            os.remove(path)
            os.remove(path + ".fai")
        ctx.run_case(big, "big")
    # ---- records that do not fit the usual proportions: one unwrapped line of 70 000 bases; one record larger than the 5 000 000-byte read whose
    #      read boundary falls exactly on a line end ((5 000 000 - header bytes) % bytes-per-line == 0) ------------------------------------------------
    if ctx.shard in (1, 2):
        def odd_shapes(_):
            r = random.Random(77 + ctx.seed + ctx.shard)
            nprng = np.random.default_rng(ctx.seed + 77 + ctx.shard)
            path = ctx.path("odd.fa")
            def rand_seq(L):
                return nprng.choice(np.frombuffer(b"ACGT", dtype=np.uint8), size=L).tobytes().decode()
            if ctx.shard == 1:
                recs = [("short1", rand_seq(50), 50), ("unwrapped", rand_seq(70000), 70000), ("short2", rand_seq(131), 60)]
            else:
                # header '>bigrecord01\n' is 13 bytes and 5 000 000 % 61 == 13
                recs = [("bigrecord01", rand_seq(5_400_000), 60), ("tail", rand_seq(200), 60)]
            index, pos = [], 0
            with open(path, "w") as f:
                for name, sq, w in recs:
                    h = ">%s\n" % name
                    body = "".join(sq[j:j + w] + "\n" for j in range(0, len(sq), w))
                    f.write(h + body)
                    index.append((name, len(sq), pos + len(h), min(w, len(sq)), min(w, len(sq)) + 1))
                    pos += len(h) + len(body)
            idx = bnp.open_indexed(path)
            rows = [l.rstrip("\n").split("\t") for l in open(path + ".fai")]
            got = [(x[0], int(x[1]), int(x[2]), int(x[3]), int(x[4])) for x in rows]
            tag = "unwrapped-line-of-70000" if ctx.shard == 1 else "record-larger-than-one-read"
            ctx.check("fai-rows", got == index, "fai-index-rows:%s" % tag, ".fai %r differs from model %r" % (got, index), {"got": got, "expected": index}, tag)
            d = {n: sq for n, sq, _ in recs}
            qs = []
            for n, sq, _ in recs:
                L = len(sq)
                for a in [0, L - 1, max(0, L - 70), L // 2, min(L - 1, 65530), min(L - 1, 65536)] + [r.randrange(L) for _ in range(6)]:
                    qs.append((n, a, min(L, a + r.choice([1, 7, 61, 300]))))
            res = text_rows(idx.get_interval_sequences(Interval([q[0] for q in qs], [q[1] for q in qs], [q[2] for q in qs])))
            bad = [(q, g[:20], d[q[0]][q[1]:q[2]][:20]) for q, g in zip(qs, res) if g != d[q[0]][q[1]:q[2]]]
            ctx.count("interval_fetches", len(qs))
            ctx.check("interval:string", not bad, "interval-fetch:%s" % tag, "fetches differ: %r" % (bad[:2],), {"bad": bad[:4]}, tag + "q")
            for n, sq, _ in recs:
                ctx.check("whole-contig", idx[n].to_string() == sq, "whole-contig-fetch:%s" % tag, "whole contig %s differs (length %d)" % (n, len(sq)), {"name": n}, tag + n)
            os.remove(path)
            os.remove(path + ".fai")
        ctx.run_case(odd_shapes, "odd")
    ctx.floor("interval_fetches", ctx.pick(1000, 20000))
    ctx.floor("judged:contig-lengths", ctx.pick(5, 100))


def replay(ctx, w):
    pass
