"""C15 — malformed input is reported, with the right line number, not mis-parsed.

Fault-injected inputs: exactly one format violation is injected at every record position of a well-formed generated file; the
file is read whole and in chunks (several chunk sizes), lazily and eagerly, plain and gzip, touching every field.  Monitor:
(1) no configuration may hand back a table; (2) for FormatException the line number must lie in the offending record's line
span and be identical in every configuration.
"""
import gzip as _gzip
import random

import numpy as np

from bnpmon.models.formats import FORMATS, make_file
from bnpmon import tables

RULE = ("well-formed files (fasta2, fastq, bed3, bed6, bedGraph, narrowPeak, sam, vcf) of 1..6 records with ONE violation injected at EVERY record position: record not starting with its marker, "
        "missing '+' line, non-numeric text in a numeric column, a byte outside a column's alphabet (all printable bytes), a line with one column more / fewer; read whole and with 12 (all, thorough) chunk sizes x "
        "{lazy, eager} x {plain, gzip}, touching every field; one evaluation = one (file, injection, configuration); distinct = that triple; non-trivial = file has >= 2 records")
ASSUMPTIONS = ["any exception counts as 'an error'; only FormatException line numbers are judged (span of the offending record, equality across configurations)",
               "only unambiguous violations are injected (no empty numeric fields, which the library treats as missing)"]
EXHAUSTIVE_CORE = "every record position x every violation class for each generated file"

NUMERIC_COLS = {"bed3": [1, 2], "bed6": [1, 2, 4], "bdg": [1, 2, 3], "narrowpeak": [1, 2, 4, 6, 9], "sam": [1, 3, 4], "vcf": [1]}
ALPHA_COLS = {"bed6": [(5, "+-.")], "narrowpeak": [(5, "+-.")]}


def preload():
    import bionumpy  # noqa
    tables.get_buffer_type("Bed6Buffer")


def run(ctx):
    import bionumpy as bnp
    from bionumpy.io.exceptions import FormatException
    from bnpmon.ctx import originates_in_library, exc_site
    rng = ctx.rng

    def inject(fc, fmt, r, cls, pos):
        """-> (new body text, description) or None if the class does not apply"""
        eol = fc["eol"]
        raws = list(fc["raws"])
        rec = raws[pos]
        L = fmt.lines_per_entry or 1
        if cls == "marker":
            if fmt.name not in ("fasta2", "fastq", "fastaw"):
                return None
            if fmt.name == "fastaw" and pos != 0:
                return None         # in wrapped FASTA a later header without its marker is a sequence line: only the first record is diagnosable
            raws[pos] = r.choice("xA1 ") .strip() + rec[1:] if r.random() < 0.5 else "x" + rec[1:]
            if raws[pos] == rec:
                raws[pos] = "x" + rec[1:]
            if r.random() < 0.3:
                # records without a name are legal (header line = the marker alone); without its marker such a header is an empty line
                for q in range(len(raws)):
                    if q == pos or r.random() < 0.4:
                        lines = raws[q].split(eol)
                        lines[0] = lines[0][:1] if q != pos else ""
                        raws[q] = eol.join(lines)
            line = pos * L
        elif cls == "plus":
            if fmt.name != "fastq":
                return None
            lines = rec.split(eol)
            lines[2] = r.choice(["x" + lines[2][1:], "x" + lines[2][1:], "", "-", " +"])        # another character in place of '+', or a blank third line
            raws[pos] = eol.join(lines)
            line = pos * L + 2
        elif cls == "nonnumeric":
            cols = NUMERIC_COLS.get(fmt.name)
            if not cols:
                return None
            c = r.choice(cols)
            f = rec[:-len(eol)].split("\t")
            bad = r.choice(["x", "1x", "x1", "12a3", "abc", "1 2", " 120", ".5", "#70", "1.5x", "12-3", "5 ", "--5", "-", "+", "!", "/7", ",3", "(4)", "*", "12\xa0", "\xb15", "1\xe97"])
            if (fmt.name, c) in (("bdg", 3), ("narrowpeak", 6)):
                # float columns: '.5' is a float; malformed floats have their own shapes
                bad = r.choice([bad if bad != ".5" else ".5.", ".5.", "1..5", "1.2.3", "..", ".e1", "1e5e3", "1e", "e5", "1e+", "1.5e2.5", "1e1.5", "--1", "1.5-", "1.-5", "1,5", "0x1p3", "1_0", "2.5e--3", "4e-+2", "1e+-2", "3-5", "2-"])
            f[c] = bad
            raws[pos] = "\t".join(f) + eol
            line = pos
        elif cls == "nonnumeric-info":
            # a typed VCF INFO key (declared Integer / Float, Number=1 in this file's header) with a value that is not a number
            if fmt.name != "vcf":
                return None
            f = rec[:-len(eol)].split("\t")
            items = f[7].split(";")
            cand = [i_ for i_, it in enumerate(items) if it.split("=")[0] in ("DP", "NS", "MQ", "H2X") and "=" in it]
            if not cand:
                return None
            i_ = r.choice(cand)
            items[i_] = items[i_].split("=")[0] + "=" + r.choice(["2x", "x", "1.2.3", "7 "])
            f[7] = ";".join(items)
            raws[pos] = "\t".join(f) + eol
            line = pos
        elif cls == "alphabet":
            cols = ALPHA_COLS.get(fmt.name)
            if not cols:
                return None
            c, alpha = r.choice(cols)
            f = rec[:-len(eol)].split("\t")
            ch = r.choice([chr(b) for b in list(range(33, 127)) + [0xA0, 0xAD, 0xB1, 0xE9, 0xFF] * 3 if chr(b) not in alpha and chr(b).upper() not in alpha])      # bytes beyond ASCII too (a no-break space, a soft hyphen)
            # the foreign character alone, or after / before / between characters of the alphabet
            ok_ = r.choice(alpha)
            f[c] = r.choice([ch, ch, ok_ + ch, ch + ok_, ok_ + ch + r.choice(alpha)])
            raws[pos] = "\t".join(f) + eol
            line = pos
        elif cls in ("extra-column", "missing-column"):
            if fmt.name in ("fasta2", "fastq", "sam", "vcf", "fastaw"):
                return None
            if pos == 0:
                return None      # the first line defines the number of columns: a deviating FIRST line is not an unambiguous violation (BED4 read as BED3 is legal)
            f = rec[:-len(eol)].split("\t")
            if cls == "extra-column":
                f.append(r.choice(["7", "x", "+"]))
            else:
                if len(f) <= 1:
                    return None
                f = f[:-1]
            raws[pos] = "\t".join(f) + eol
            line = pos
        else:
            return None
        return "".join(raws), line

    def touch(t, fmt, how):
        """read the affected data: column by column, or the table materialised as a whole first (other code path for lazily read chunks)"""
        if how == "whole-first" and hasattr(t, "get_data_object"):
            t.get_data_object()
        elif how == "tolist-first":
            t.tolist()
        tables.rows_of(t, list(fmt.fields))

    eager_read_completed = [False]

    def attempt(path, fmt, bt, lazy, k, how="columns", other=None):
        """-> ('table', n) | ('FormatException', line) | ('error', type);  other: a well-formed file read chunk by chunk in between (two readers in one process)"""
        try:
            rd = bnp.open(path, buffer_type=bt, lazy=lazy)
            n = 0
            if lazy is False and other is None:
                # eager reading parses every column when the data is read: the read itself (before anything looks at the table) is where a violation surfaces
                rd0 = bnp.open(path, buffer_type=bt, lazy=False)
                if k is None:
                    rd0.read()
                else:
                    for _ in rd0.read_chunks(min_chunk_size=k):
                        pass
                rd0.close()
                eager_read_completed[0] = True
            if k is None:
                t = rd.read()
                touch(t, fmt, how)
                n = len(t)
            else:
                it2 = iter(bnp.open(other, buffer_type=bt, lazy=lazy).read_chunks(min_chunk_size=max(1, k // 2))) if other else None
                for chunk in rd.read_chunks(min_chunk_size=k):
                    if it2 is not None:
                        nxt = next(it2, None)
                        if nxt is not None:
                            touch(nxt, fmt, "columns")
                    touch(chunk, fmt, how)
                    n += len(chunk)
            return ("table", n)
        except FormatException as e:
            return ("FormatException", int(e.line_number) if e.line_number is not None else None)
        except Exception as e:
            if not originates_in_library(e) and not isinstance(e, (AssertionError,)):
                raise
            return ("error", type(e).__name__)

    def one(case):
        r = random.Random(case["seed"])
        fname = case["fmt"]
        fmt = FORMATS[fname]
        n = case.get("n") or r.randint(1, 6)
        fc = make_file(fname, r, n, r.choice(["tiny", "normal"]), {"noncanon": False, "eol": "\n", "final_newline": True, "score_mode": "int", "tags": False})
        bt = tables.get_buffer_type(fmt.buffer)
        L = fmt.lines_per_entry or 1
        good_path = ctx.path("good" + fmt.suffix)
        with open(good_path, "wb") as f:
            f.write(fc["data"])
        if fname == "vcf":
            # earlier in the same process: a well-formed VCF whose header declares the same INFO ids with OTHER types (MQ as String, DP as Float ...), read and looked at
            fc_other = make_file("vcf", random.Random(case["seed"] + 1), 3, "normal", {"noncanon": False, "eol": "\n", "final_newline": True, "info_defs_alt": True})
            op_ = ctx.path("other.vcf")
            with open(op_, "wb") as f:
                f.write(fc_other["data"])
            try:
                tables.rows_of(bnp.open(op_, buffer_type=bt).read(), list(FORMATS["vcf"].fields))
                ctx.count("vcf_with_other_info_types_read_before")
            except Exception:
                pass
        for cls in ("marker", "plus", "nonnumeric", "nonnumeric-info", "alphabet", "extra-column", "missing-column"):
            for pos in (range(n) if n <= 10 else [n - 5, n // 2]):
                if n > 10 and cls not in ("nonnumeric", "alphabet"):
                    continue
                inj = inject(fc, fmt, r, cls, pos)
                if inj is None:
                    continue
                body, line = inj
                data = (fc["header"] + body).encode("latin1")
                path = tables.write_case_file(ctx, fc, data=data)
                gz = tables.write_case_file(ctx, fc, gz=True, data=data)
                size = len(body)
                if n > 10:
                    ks = sorted(set([max(1, size // 7), max(1, size // 3), size // 2 + 1, size + 2, 200, 333]))
                elif ctx.quick:
                    ks = sorted(set([1, 2, max(1, size // 3), size // 2 + 1, size, size + 2] + [r.randint(1, size + 2) for _ in range(6)]))
                else:
                    ks = list(range(1, size + 3))
                configs = [(None, lazy, p, "whole") for lazy in (True, False) for p in (path, gz)] if fmt.lazy else [(None, False, path, "whole"), (None, False, gz, "whole")]
                for k in ks:
                    for lazy in ((True, False) if fmt.lazy else (False,)):
                        configs.append((k, lazy, path if (k + lazy) % 2 == 0 or not ctx.quick else gz, "chunked"))
                wit = {"format": fname, "class": cls, "record": pos, "n_records": n, "data": data.decode("latin1")[:1200], "seed": case["seed"]}
                numbers = {}
                other_error_types = {}
                span = (pos * L, pos * L + L - 1)
                for k, lazy, p, mode in configs:
                    how = r.choice(["columns", "columns", "whole-first", "tolist-first"])
                    inter = k is not None and r.random() < 0.15
                    eager_read_completed[0] = False
                    out = attempt(p, fmt, bt, lazy, k, how, other=good_path if inter else None)
                    if eager_read_completed[0] and out[0] != "table" and cls != "nonnumeric-info":       # (typed INFO stays a lazily parsed sub-table in eager mode too: its values are read when they are looked at)
                        ctx.check("must-raise:" + cls, False, "%s/eager-read-returned-a-table-and-failed-only-when-it-was-looked-at:%s" % (cls, "gzip" if p.endswith(".gz") else "plain"),
                                  "%s with %s at record %d: reading with lazy=False completed (k=%s) and the error came only when the table was looked at" % (fname, cls, pos, k), dict(wit, k=k, gzip=p.endswith(".gz")), None)
                    nt = (data, cls, pos, k, lazy, p.endswith(".gz")) if n >= 2 else None
                    cfg = "k=%s,%s,%s%s%s" % (k, "lazy" if lazy else "eager", "gzip" if p.endswith(".gz") else "plain", "" if how == "columns" else "," + how, ",interleaved-with-another-reader" if inter else "")
                    if out[0] == "table":
                        isolated = ""
                        if mode == "chunked" and cls in ("extra-column", "missing-column"):
                            isolated = ":chunk-boundary-isolates-the-line"
                        ctx.check("must-raise:" + cls, False, "%s/accepted-as-table:%s:%s%s" % (cls, fname if cls in ("marker", "plus") else "delimited", mode, isolated),
                                  "%s with %s at record %d was read without error (%s, %d entries)" % (fname, cls, pos, cfg, out[1]), dict(wit, config=cfg), nt)
                        continue
                    ctx.judged("must-raise:" + cls, nt)
                    if out[0] == "FormatException":
                        ctx.count("format_exceptions")
                        ln = out[1]
                        # the line where the record starts, or the line inside it where the violation sits (another line of the record is neither)
                        ok = ln is not None and ln in (span[0], line if span[0] <= line <= span[1] else span[0])
                        ctx.check("line-number:" + cls, ok, "%s/line-number-outside-offending-record:%s" % (cls, mode), "%s with %s at record %d (lines %d..%d): FormatException.line_number = %r (%s)" % (fname, cls, pos, span[0], span[1], ln, cfg),
                                  dict(wit, config=cfg, line_number=ln, span=list(span)), nt)
                        numbers.setdefault(ln, cfg)
                    else:
                        ctx.count("other_errors:" + out[1])
                        other_error_types.setdefault(out[1], cfg)
                if numbers and other_error_types and cls in ("nonnumeric", "alphabet"):        # (for a wrong number of columns the kind of error depends on where chunk boundaries fall: the listed per-chunk column inference)
                    # the same violation in the same file is diagnosed as a format error (with its line) in some configurations and surfaces as another kind of error in others
                    ctx.check("line-number-invariant:" + cls, False, "%s/diagnosed-as-a-format-error-in-some-configurations-only" % cls, "%s with %s at record %d: FormatException (lines %r) in some configurations, %r in others" % (fname, cls, pos, sorted(numbers), sorted(other_error_types)),
                              dict(wit, numbers={str(k_): v_ for k_, v_ in numbers.items()}, others=dict(other_error_types)), (data, cls, pos, "diag"))
                if len(numbers) > 1:
                    ctx.check("line-number-invariant:" + cls, False, "%s/line-number-differs-between-configurations" % cls, "%s with %s at record %d: line numbers %r" % (fname, cls, pos, numbers), dict(wit, numbers={str(k): v for k, v in numbers.items()}), (data, cls, pos, "inv"))
                elif numbers:
                    ctx.judged("line-number-invariant:" + cls, (data, cls, pos, "inv"))

    fmts = ["fasta2", "fastq", "bed3", "bed6", "bdg", "narrowpeak", "sam", "vcf", "fastaw"]
    for i in range(ctx.share(ctx.pick(30 * len(fmts), 60 * len(fmts)))):
        ctx.run_case(one, {"fmt": fmts[i % len(fmts)], "seed": rng.randrange(2 ** 40)})
    # files of more than a hundred records (column data longer than any message excerpt), the violation late in the file
    for i in range(ctx.share(ctx.pick(32, 200))):
        ctx.run_case(one, {"fmt": ["bed6", "narrowpeak", "bdg", "bed3"][i % 4], "seed": rng.randrange(2 ** 40), "n": rng.randint(110, 140)})
    ctx.sample({"format": "fastq", "class": "plus", "record": 1, "data": "@a\nAC\n+\n!!\n@b\nG\nx\n#\n", "expected": "every configuration raises; FormatException.line_number in 4..7 and equal everywhere"})
    ctx.floor("format_exceptions", ctx.pick(300, 5000))
    ctx.floor("judged:must-raise:nonnumeric", ctx.pick(100, 2000))
    ctx.floor("judged:must-raise:marker", ctx.pick(50, 1000))


def replay(ctx, w):
    pass
