"""C01 — chunked reading loses, duplicates or reorders no entry, for any chunk size.

Differential history monitor (chunked vs whole read of the same bytes) + reader conservation invariant (M3):
bytes and lines the reader reports as delivered must equal the data section of the file at end of stream and never decrease.
"""
import gzip as _gzip
import io
import random

from bnpmon.models.formats import FORMATS, make_file
from bnpmon import tables
from bnpmon.ctx import exc_site, originates_in_library

RULE = ("files of 1..4 entries (profile 'tiny': field lengths from {1,2,5}) of 10 formats x EVERY min_chunk_size in [1, size+2] x {plain, gzip} x "
        "{final newline, none} x {LF, CRLF} x {lazy, eager}, entered through bnp.open(path) and through NpDataclassReader(NumpyFileReader(BytesIO)) "
        "(plain and prepend mode); sampled larger files with hostile k (divisors of size +-1, entry boundaries +-1, size, size+-1, size+2, powers of two); "
        "one evaluation = one completed chunked read compared with the whole read; distinct = (file bytes, config, k); non-trivial = file has >= 2 entries")
ASSUMPTIONS = ["the whole read of the same bytes is the reference (its own correctness is C02's business)",
               "an exception is tolerated when k is smaller than the longest entry (statement: 'may raise an error'); with a larger k it is a violation"]
EXHAUSTIVE_CORE = "every k in [1,size+2] x 16 configurations for each generated small file"

FORMATS_C01 = ["fasta2", "fastaw", "fastq", "bed3", "bed6", "bdg", "narrowpeak", "vcf", "sam", "gtf"]


def preload():
    import bionumpy  # noqa
    tables.get_buffer_type("TwoLineFastaBuffer")


class ReaderMonitor:
    """M3: monotonic counters on the live NumpyFileReader."""

    def __init__(self, ctx):
        self.ctx = ctx

    def install(self):
        from bionumpy.io.parser import NumpyFileReader
        from bnpmon.install import monitor_method
        ctx = self.ctx

        def pre(args, kwargs):
            r = args[0]
            return (r.n_bytes_read, r.n_lines_read)

        def post(result, args, kwargs, state):
            r = args[0]
            ctx.count("m3_read_chunk_events")
            if r.n_bytes_read < state[0] or r.n_lines_read < state[1]:
                ctx.violation("conservation/counter-decreased", "n_bytes_read/n_lines_read decreased across read_chunk",
                              {"before": state, "after": (r.n_bytes_read, r.n_lines_read)})
            if result is not None:
                if r.n_bytes_read - state[0] != result.size:
                    ctx.violation("conservation/bytes-counter-vs-chunk-size", "n_bytes_read advanced by %d but the chunk holds %d bytes" % (r.n_bytes_read - state[0], result.size),
                                  {"before": state, "after": (r.n_bytes_read, r.n_lines_read)})
        monitor_method(NumpyFileReader, "read_chunk", pre=pre, post=post)


def open_reader(ctx, fc, path, gz_path, entry, lazy):
    import bionumpy as bnp
    from bionumpy.io.parser import NumpyFileReader
    from bionumpy.io.npdataclassreader import NpDataclassReader
    fmt = FORMATS[fc["fmt"]]
    if entry == "open":
        return tables.open_case(path, fc, lazy=lazy)
    if entry == "open-gz":
        return tables.open_case(gz_path, fc, lazy=lazy)
    bt = tables.get_buffer_type(fmt.buffer) or bnp.io.files._get_buffer_type(fmt.suffix)
    r = NumpyFileReader(io.BytesIO(fc["data"]), bt)
    if entry == "bytesio-prepend":
        r.set_prepend_mode()
    return NpDataclassReader(r, lazy=lazy)


def run(ctx):
    import numpy as np
    mon = ReaderMonitor(ctx)
    mon.install()
    rng = ctx.rng

    def check_file(fc, ks, entries, tag):
        fmt = FORMATS[fc["fmt"]]
        fields = list(fmt.fields)
        path = tables.write_case_file(ctx, fc)
        gz_path = tables.write_case_file(ctx, fc, gz=True)
        D = len(fc["data"]) - len(fc["header"])
        n_rec = len(fc["records"])
        max_entry = max(len(r) for r in fc["raws"]) + 1
        lazies = [True, False] if fmt.lazy else [False]
        for entry in entries:
            for lazy in lazies:
                cfg = "%s/%s/%s/%s/%s" % (fc["fmt"], entry, "lazy" if lazy else "eager", "crlf" if fc["eol"] != "\n" else "lf", "nl" if fc["final_newline"] else "nonl")
                try:
                    rd = open_reader(ctx, fc, path, gz_path, entry, lazy)
                    whole = tables.rows_of(rd.read(), fields)
                    rd.close()
                except Exception as e:
                    if not originates_in_library(e):
                        raise
                    ctx.observe("whole-read-raised(C02's business):%s" % type(e).__name__, {"cfg": cfg, "data": fc["data"].decode("latin1")})
                    whole = None            # nothing to compare the chunks with; a chunked read that raises with a sufficient chunk size is still judged below
                if whole is not None and len(whole) != n_rec:
                    ctx.observe("whole-read-count-differs-from-model(C02's business)", {"cfg": cfg, "data": fc["data"].decode("latin1"), "got": len(whole), "model": n_rec})
                for k in ([k_ for k_ in ks if k_ >= max_entry][:3] + [k_ for k_ in ks if k_ >= max_entry][-1:]) if whole is not None else []:
                    # one chunk with read_chunk, the rest of the file with read(): together the entries of the file
                    try:
                        rd = open_reader(ctx, fc, path, gz_path, entry, lazy)
                        first = rd.read_chunk(min_chunk_size=k)
                        rest = rd.read()
                        both_rows = (tables.rows_of(first, fields) if first is not None else []) + (tables.rows_of(rest, fields) if rest is not None and len(rest) else [])
                        rd.close()
                    except Exception as e:
                        if not originates_in_library(e):
                            raise
                        et, site = exc_site(e)
                        ctx.judged("read_chunk+read", (fc["data"], cfg, k, "cr"))
                        ctx.violation("read_chunk-then-read/raised:%s" % ("gzip-or-prepend" if entry in ("open-gz", "bytesio-prepend") else "plain"), "read_chunk(%d) followed by read() raised %s: %s" % (k, et, str(e)[:100]), {"cfg": cfg, "k": k, "data": fc["data"].decode("latin1")})
                        continue
                    ctx.check("read_chunk+read", both_rows == whole, "read_chunk-then-read/different-entries:%s" % ("gzip-or-prepend" if entry in ("open-gz", "bytesio-prepend") else "plain"),
                              "read_chunk(%d) + read() gave %d entries, the file has %d" % (k, len(both_rows), len(whole)), {"cfg": cfg, "k": k, "data": fc["data"].decode("latin1"), "got": both_rows[:6]}, (fc["data"], cfg, k, "cr"))
                for k in ks:
                    ctx.count("reads_attempted")
                    try:
                        rd = open_reader(ctx, fc, path, gz_path, entry, lazy)
                        sizes = []
                        rows = []
                        held = []
                        stream_ = rd.read_chunks(min_chunk_size=k)
                        leave_after = (k % 4) if k % 5 == 0 else None          # some loops over the stream are left early with `break` and taken up again
                        for rounds_ in range(3 if leave_after is not None else 1):
                            taken_ = 0
                            for chunk in stream_:
                                part = tables.rows_of(chunk, fields)
                                sizes.append(len(part))
                                rows.extend(part)
                                held.append(chunk)
                                taken_ += 1
                                if leave_after is not None and rounds_ == 0 and taken_ > leave_after:
                                    ctx.count("chunk_loops_left_early_and_resumed")
                                    break
                        nb, nl = rd._reader.n_bytes_read, rd._reader.n_lines_read
                        rd.close()
                    except Exception as e:
                        if not originates_in_library(e):
                            raise
                        et, site = exc_site(e)
                        if k >= max_entry:
                            ctx.judged("completed-or-raised", (fc["data"], cfg, k))
                            ctx.violation("raised-with-sufficient-chunk:%s@%s:%s" % (et, site, fc["fmt"]), "chunked read with k=%d >= longest entry (%d) raised %s: %s" % (k, max_entry, et, str(e)[:100]),
                                          {"cfg": cfg, "k": k, "data": fc["data"].decode("latin1")})
                        else:
                            ctx.observe("raised-with-k-below-longest-entry:%s" % et, {"cfg": cfg, "k": k})
                        continue
                    # "concatenated in order" through the library's own np.concatenate as well (lazy chunks concatenate at buffer level);
                    # the chunks were read successfully, so a failure here is not excused by a small chunk size
                    if 2 <= len(held) <= 8 and (k % 3 == 0 or (len(held) >= 3 and k % 2 == 0) or not ctx.quick):
                        ctx.count("np_concatenate_of_chunks")
                        try:
                            # fresh chunks: nothing parsed (and cached) on the lazy objects before they are concatenated
                            rd2 = open_reader(ctx, fc, path, gz_path, entry, lazy)
                            fresh = list(rd2.read_chunks(min_chunk_size=k))
                            rd2.close()
                            peeked = ""
                            if (k + len(fresh)) % 3 == 0:
                                # a column was looked at on SOME of the chunks before they are joined (peeking at the first chunk, filtering on one of them)
                                for c_ in fresh[:max(1, len(fresh) // 2)]:
                                    getattr(c_, fields[(k + len(fresh)) % len(fields)])
                                peeked = ":after-a-column-was-read-on-some-chunks"
                                ctx.count("concatenations_after_partial_column_access")
                            joined = tables.rows_of(np.concatenate(fresh), fields)
                        except Exception as e:
                            if not originates_in_library(e):
                                raise
                            et, site = exc_site(e)
                            joined = "raised %s@%s" % (et, site)
                            peeked = locals().get("peeked", "")
                        ctx.judged("np.concatenate(chunks)", (fc["data"], cfg, k) if n_rec >= 2 else None)
                        if joined != rows:
                            ctx.violation("np.concatenate(chunks)-differs-from-chunk-rows:%s%s" % ("lazy" if lazy else "eager", peeked), "np.concatenate of the %d chunks (k=%d) differs from the chunks' own rows: %r" % (len(held), k, joined if isinstance(joined, str) else joined[:3]),
                                          {"cfg": cfg, "k": k, "data": fc["data"].decode("latin1"), "chunk_sizes": sizes, "joined": joined if isinstance(joined, str) else joined[:8], "rows": rows[:8]})
                    ctx.count("reads_completed")
                    nontriv = (fc["data"], cfg, k) if n_rec >= 2 else None
                    if whole is None:
                        continue
                    if rows != whole:
                        kind = classify(rows, whole, fc)
                        ctx.judged("chunked==whole", nontriv)
                        ctx.violation("%s:%s" % (kind, "gzip-or-prepend" if entry in ("open-gz", "bytesio-prepend") else "plain"),
                                      "chunks concatenated (%d entries) != whole read (%d entries), k=%d" % (len(rows), len(whole), k),
                                      {"cfg": cfg, "k": k, "size": len(fc["data"]), "data": fc["data"].decode("latin1"), "chunk_sizes": sizes, "chunked": rows[:8], "whole": whole[:8]})
                    else:
                        ctx.judged("chunked==whole", nontriv)
                        # conservation at end of stream (only meaningful for a read that delivered everything)
                        ok = D <= nb <= D + 2
                        ctx.check("conservation", ok, "conservation/bytes-at-end-of-stream", "reader delivered %d bytes, data section has %d" % (nb, D),
                                  {"cfg": cfg, "k": k, "data": fc["data"].decode("latin1"), "n_bytes_read": nb, "D": D}, nontriv)
                        if fmt.lines_per_entry:
                            ctx.check("conservation", nl == n_rec * fmt.lines_per_entry or len(whole) != n_rec, "conservation/lines-at-end-of-stream",
                                      "reader counted %d lines, data has %d" % (nl, n_rec * fmt.lines_per_entry), {"cfg": cfg, "k": k, "data": fc["data"].decode("latin1")}, nontriv)
        if rng.random() < 0.02:
            ctx.sample({"file": fc["data"].decode("latin1")[:300], "ks": ks[:12], "tag": tag})

    entries_all = ["open", "open-gz", "bytesio", "bytesio-prepend"]

    # ---- exhaustive small files -----------------------------------------------------------------
    small = []
    gen = random.Random(ctx.seed * 7 + 1)       # same list in every shard; sliced by ctx.mine
    per_fmt = ctx.pick(1, 8)
    for fname in FORMATS_C01:
        for j in range(per_fmt):
            n = [1, 2, 3, 4][j % 4] if per_fmt >= 4 else gen.choice([2, 3, 4])
            for eol in ("\n", "\r\n"):
                for fnl in (True, False):
                    # SAM records with optional fields: in the files without a final newline (the last record's tags end the file) and in every second other file
                    style = {"eol": eol, "final_newline": fnl, "tags": fname == "sam" and (not fnl or j % 2 == 1), "wrap": gen.choice([1, 2, 3, 5]) if fname == "fastaw" else None}
                    if fname == "bed6":
                        style.update(score_mode=gen.choice(["int", "mixed"]), score_small=gen.random() < 0.5)
                    small.append((fname, n, style, gen.randrange(2 ** 30)))
    for fi, (fname, n, style, s) in enumerate(small):
        fc = make_file(fname, random.Random(s), n, "tiny", style)
        for extra_try in range(1, 8):
            if not (fname == "sam" and style["tags"] and not fc["records"][-1]["values"]["extra"]):
                break
            fc = make_file(fname, random.Random(s + extra_try), n, "tiny", style)      # the optional fields of the LAST record are the ones that end the file
        size = len(fc["data"])
        D = size - len(fc["header"])
        # the header is consumed line by line before chunking starts: every k up to the data section's size + 2, plus the sizes around the whole file
        ks_all = sorted(set(range(1, D + 3)) | {size, size + 1, size + 2}) if ctx.quick else list(range(1, size + 3))
        ks_mine = [k for k in ks_all if (k + fi) % ctx.nshards == ctx.shard]      # every file in every shard, chunk sizes dealt round-robin (balanced load)
        if not ks_mine:
            continue
        def case(_):
            check_file(fc, ks_mine, ["open", "open-gz"] if ctx.quick else entries_all, "exhaustive-k")
        ctx.run_case(case, {"fmt": fname, "n": n, "style": style, "seed": s})

    # ---- sampled larger files, hostile k ---------------------------------------------------------
    for _ in range(ctx.share(ctx.pick(32, 2000))):
        fname = rng.choice(FORMATS_C01)
        n = rng.randint(5, ctx.pick(25, 120))
        style = {"eol": rng.choice(["\n", "\n", "\r\n"]), "final_newline": rng.random() < 0.5, "wrap": rng.choice([None, 3, 7, 60]) if fname == "fastaw" else None}
        if fname == "bed6":
            style.update(score_mode=rng.choice(["int", "mixed"]), score_small=rng.random() < 0.5)
        fc = make_file(fname, random.Random(rng.randrange(2 ** 30)), n, rng.choice(["tiny", "normal", "wide"]), style)
        size = len(fc["data"])
        D = size - len(fc["header"])
        ks = {size, size - 1, size + 1, size + 2, D, D + 1, max(1, D - 1)}
        for d in range(2, 12):
            for base in (size, D):
                if base % d == 0:
                    ks.update({base // d, base // d + 1, max(1, base // d - 1)})
        pos = 0
        for raw in fc["raws"][:-1]:
            pos += len(raw)
            if rng.random() < 0.3:
                ks.update({pos, pos + 1, max(1, pos - 1)})
        ks.update({2 ** i for i in range(3, 12)})
        longest = max(len(r) for r in fc["raws"])
        ks = sorted(k for k in ks if k >= 1 and (k >= longest // 4 or k > 16))
        if len(ks) > 24:
            ks = sorted(rng.sample(ks, 24))
        def case(_):
            check_file(fc, ks, [rng.choice(["open", "bytesio"]), rng.choice(["open-gz", "bytesio-prepend"])], "hostile-k")
        ctx.run_case(case, {"fmt": fname, "n": n, "style": style})

    # ---- realistic inputs: example files of the repository (thorough; a few in quick) ----------
    import os
    from bnpmon import REPO_ROOT
    ex = os.path.join(REPO_ROOT, "example_data")
    realistic = [("reads.fq", None), ("small_interval.bed", None), ("variants.vcf", None), ("test.sam", None), ("small.fa", None), ("peaks.narrowPeak", None), ("big.fq.gz", None), ("alignments.bed", None)]
    realistic = [(os.path.join(ex, f), b) for f, b in realistic if os.path.exists(os.path.join(ex, f))]
    import bionumpy as bnp
    for i, (p, _) in enumerate(realistic):
        if i % ctx.nshards != ctx.shard:
            continue
        def case(_):
            try:
                whole = bnp.open(p).read()
                fields = None
                whole_rows = tables.rows_of(whole, fields)
            except Exception as e:
                if not originates_in_library(e):
                    raise
                ctx.observe("example-file-whole-read-raised:%s" % os.path.basename(p))
                return
            size = os.path.getsize(p) if not p.endswith(".gz") else len(_gzip.open(p).read())
            ks = sorted({size, size + 1, size // 2, size // 3, size // 2 + 1, 1000, 4096, 50000})
            for k in ks[: ctx.pick(3, 8)]:
                if k < 600:
                    continue
                ctx.count("reads_attempted")
                rows = []
                for chunk in bnp.open(p).read_chunks(min_chunk_size=k):
                    rows.extend(tables.rows_of(chunk, fields))
                ctx.count("reads_completed")
                ctx.check("example:chunked==whole", rows == whole_rows, "example-file:" + classify(rows, whole_rows, None), "example file %s: chunked (%d) != whole (%d) at k=%d" % (os.path.basename(p), len(rows), len(whole_rows), k),
                          {"file": p, "k": k}, (p, k))
        ctx.run_case(case, {"example": p})

    ctx.floor("reads_completed", ctx.pick(1500, 20000))
    ctx.floor("m3_read_chunk_events", ctx.pick(1500, 20000))
    ctx.floor("np_concatenate_of_chunks", ctx.pick(200, 5000))


def classify(rows, whole, fc):
    if len(rows) < len(whole) and rows == whole[:len(rows)]:
        lost = len(whole) - len(rows)
        return "tail-entries-lost" if lost >= 1 else "?"
    if len(rows) > len(whole):
        return "extra-or-duplicated-entries"
    if len(rows) == len(whole):
        return "different-entries" if sorted(map(repr, rows)) != sorted(map(repr, whole)) else "reordered-entries"
    return "entries-lost-not-at-tail"


def replay(ctx, w):
    pass
