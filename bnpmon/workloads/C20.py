"""C20 — operations do not modify their inputs.

Snapshot-compare monitor (M7) around every call of a registry of the public API: deep snapshot of every argument before ==
after (on return and on exception), the second call on the same arguments gives an equal result, and for lazily read chunks
the bytes the chunk writes are the same before and after its fields were inspected.  Write-barrier amplifier: the call is
repeated with every argument buffer frozen (writeable=False); a 'read-only' error names a site that writes into caller
memory (recorded, never a verdict by itself).
"""
import random

import numpy as np

from bnpmon.models.formats import FORMATS, make_file
from bnpmon import tables

RULE = ("registry of ~70 public entry points (strops converters, encodings, sequence functions, interval arithmetic, genomic-data methods, table methods, field access on lazily read chunks of 12 formats) x "
        "generated arguments incl. the special paths (negative numbers, '+' signs, scientific floats, list-valued columns, genotype columns, chunks assembled from several reads so that their buffer is writable); "
        "one evaluation = one call with snapshot compare + repeat; distinct = (entry point, argument content); non-trivial = arguments hold >= 2 elements")
ASSUMPTIONS = ["deep snapshots (raw bytes, shapes, encodings, per column) are compared before/after; explicit item/attribute assignment is never called",
               "write-barrier hits are evidence only: a write through an empty mask is legal"]
EXHAUSTIVE_CORE = None


def preload():
    import bionumpy  # noqa
    import pandas  # noqa
    tables.get_buffer_type("VCFMatrixBuffer")


def snap(x, depth=0):
    """deep, hashable snapshot of an argument"""
    import dataclasses
    if depth > 5:
        return repr(type(x))
    tname = type(x).__name__
    if x is None or isinstance(x, (bool, int, float, str, bytes)):
        return x
    if isinstance(x, (list, tuple)):
        return tuple(snap(e, depth + 1) for e in x)
    if isinstance(x, dict):
        return tuple((k, snap(v, depth + 1)) for k, v in x.items())
    if isinstance(x, np.ndarray):
        return ("nd", x.shape, str(x.dtype), x.tobytes() if x.dtype != object else repr(x.tolist()))
    if tname == "EncodedArray":
        return ("EA", repr(x.encoding), snap(np.asarray(x.raw()), depth + 1))
    if tname in ("EncodedRaggedArray", "RaggedArray"):
        # read the rows through the index structure WITHOUT calling ravel()/tolist() (those materialise a view in place and would
        # heal exactly the state an in-place write needs)
        try:
            shape = x._shape
            starts = np.asarray(shape.starts).ravel()
            lens = np.asarray(shape.lengths).ravel()
            d = getattr(x, "_data", None)
            if d is None:
                d = x.__dict__.get("_RaggedBase__data")
            raw = np.asarray(d.raw() if hasattr(d, "raw") else d)
            rows = tuple(raw[int(a):int(a) + int(l)].tobytes() for a, l in zip(starts, lens))
            return (tname, repr(getattr(x, "encoding", None)), rows)
        except Exception as e:
            return (tname, "unsnappable:" + type(e).__name__)
    if tname == "StringArray":
        return ("SA", snap(np.asarray(x.raw()), depth + 1))
    if hasattr(x, "_itemgetter"):          # lazily read chunk: the raw buffer and its parsed/replaced stores
        buf = x._itemgetter.buffer
        ext = getattr(buf, "_buffer_extractor", None)
        data = getattr(ext, "_data", None) if ext is not None else getattr(buf, "_data", None)
        raw = np.asarray(data.raw() if hasattr(data, "raw") else data)
        return ("lazy", raw.tobytes(), tuple(sorted(x._set_values)))
    if hasattr(x, "__dataclass_fields__"):
        extra = tuple(sorted(k for k in getattr(x, "__dict__", {}) if not k.startswith("_") and k not in x.__dataclass_fields__))        # attributes a call added to the table
        return (tname,) + tuple((f, snap(getattr(x, f), depth + 1)) for f in x.__dataclass_fields__) + ((("extra-attributes", extra),) if extra else ())
    if tname in ("Genome", "Geometry", "StreamedGeometry", "GenomeContext", "GlobalOffset"):
        # objects that hold the genome: the contig sizes and offsets they carry (arrays the genomic methods look sizes up in)
        gc = x if tname in ("GenomeContext", "GlobalOffset") else getattr(x, "_genome_context", None)
        go = gc if tname == "GlobalOffset" else getattr(gc, "_global_offset", None)
        parts = [tname]
        if gc is not None and hasattr(gc, "chrom_sizes"):
            parts.append(tuple((k, int(v)) for k, v in gc.chrom_sizes.items()))
        if go is not None:
            parts.append(snap(np.asarray(go._sizes), depth + 1))
            parts.append(snap(np.asarray(go._offset), depth + 1))
        return tuple(parts)
    if hasattr(x, "get_data") and hasattr(x, "genome_context"):
        try:
            return (tname, snap(x.get_data(), depth + 1))
        except Exception:
            return (tname,)
    return repr(type(x))


def freeze(x, depth=0):
    """set writeable=False on every numpy buffer reachable from x; returns list of arrays to thaw"""
    out = []
    if depth > 4:
        return out
    if isinstance(x, np.ndarray):
        if x.flags.writeable:
            try:
                x.flags.writeable = False
                out.append(x)
            except ValueError:
                pass
        return out
    if isinstance(x, (list, tuple)):
        for e in x:
            out += freeze(e, depth + 1)
        return out
    for attr in ("_data", "data"):
        if hasattr(x, attr) and not hasattr(x, "__dataclass_fields__"):
            try:
                out += freeze(getattr(x, attr), depth + 1)
            except Exception:
                pass
            break
    if hasattr(x, "__dataclass_fields__") and not hasattr(x, "_itemgetter"):
        for f in x.__dataclass_fields__:
            out += freeze(getattr(x, f), depth + 1)
    return out


def result_repr(r):
    from bnpmon.ctx import jsonable
    try:
        if hasattr(r, "get_data") and hasattr(r, "genome_context"):
            r = r.get_data()
        if hasattr(r, "to_dict") and not hasattr(r, "__dataclass_fields__"):
            r = {k: np.asarray(v).tolist() for k, v in r.to_dict().items()}
        if hasattr(r, "__dataclass_fields__") and hasattr(r, "__len__"):
            return repr(tables.rows_of(r))
        return repr(jsonable(r))
    except Exception as e:
        return "<unrepresentable %s>" % type(r).__name__


def run(ctx):
    import bionumpy as bnp
    from bionumpy.io import strops
    from bionumpy.datatypes import Interval, Bed6, BedGraph, StrandedInterval, SequenceEntry, LocationEntry
    from bionumpy.arithmetics import intervals as ivm
    from bionumpy.arithmetics import get_pileup, get_boolean_mask, merge_intervals, sort_intervals, count_overlap, intersect, unique_intersect, jaccard, forbes
    from bionumpy.sequence import get_reverse_complement, translate_dna_to_protein, count_kmers, get_strand_specific_sequences
    from bionumpy.sequence.position_weight_matrix import PWM
    from bionumpy.encodings import alphabet_encoding as ae
    from npstructures import RaggedArray
    from bnpmon.ctx import originates_in_library, exc_site
    rng = ctx.rng

    def enc(rows, e=None):
        return (bnp.as_encoded_array(list(rows), e) if e is not None else bnp.as_encoded_array(list(rows))).copy()

    def int_texts(r):
        return [r.choice(["", "-", "+"]) + str(r.randint(0, 10 ** r.randint(1, 12))) for _ in range(r.randint(1, 6))]

    def float_texts(r):
        return [r.choice(["1.5", "-2.25", "3e5", "-1.5e-3", "+7", "0.001", "12", "6.02e+23", "-0.0"]) for _ in range(r.randint(1, 6))]

    def dna_rows(r, alpha="ACGT"):
        return ["".join(r.choice(alpha) for _ in range(r.choice([0, 3, 6, 9, 12]))) for _ in range(r.randint(1, 4))]

    def sorted_iv(r, S=60, strands=False):
        n = r.randint(0, 6)
        st = sorted(r.randint(0, S - 2) for _ in range(n))
        rows = [(a, r.randint(a + 1, S)) for a in st]
        a = np.array([x[0] for x in rows], dtype=int)
        b = np.array([x[1] for x in rows], dtype=int)
        if strands:
            return StrandedInterval(["chr1"] * n, a, b, [r.choice("+-") for _ in range(n)])
        return Interval(["chr1"] * n, a, b)

    def genome_and_iv(r):
        sizes = {"chr1": 50, "chr2": 30}
        g = bnp.Genome.from_dict(sizes)
        rows = sorted([(r.choice(["chr1", "chr2"]), r.randint(0, 20), r.randint(21, 30)) for _ in range(r.randint(1, 5))])
        t = Bed6([x[0] for x in rows], np.array([x[1] for x in rows]), np.array([x[2] for x in rows]), ["n%d" % i for i in range(len(rows))], np.zeros(len(rows), dtype=int), [r.choice("+-") for _ in rows])
        return g, t

    def geometry_and_iv(r):
        from bionumpy.genomic_data.geometry import Geometry
        g, t = genome_and_iv(r)
        sizes = dict(g.get_genome_context().chrom_sizes)
        return (Geometry(sizes) if r.random() < 0.5 else Geometry.from_chrom_sizes(bnp.datatypes.ChromosomeSize(list(sizes), np.array(list(sizes.values()), dtype=int))), t)

    def geometry_and_one_each(r):
        # one interval per contig, the contigs in genome order (whole-chromosome windows and the like)
        from bionumpy.genomic_data.geometry import Geometry
        sizes = {"chr1": r.randint(20, 60), "chr2": r.randint(20, 60), "chr3": r.randint(5, 30)} if r.random() < 0.6 else {"chr1": r.randint(20, 60)}
        rows = [(c, r.randint(0, 3), r.choice([S, S, S - r.randint(1, 4), S + 3])) for c, S in sizes.items()]
        return (Geometry(sizes), Interval([x[0] for x in rows], np.array([x[1] for x in rows], dtype=int), np.array([x[2] for x in rows], dtype=int)))

    def genome_and_iv_out(r):
        """intervals that stick out of their chromosome (negative start / stop beyond the end): clipping has something to do"""
        sizes = {"chr1": 50, "chr2": 30}
        g = bnp.Genome.from_dict(sizes)
        rows = sorted([(c, r.randint(-5, 20), r.randint(21, sizes[c] + 8)) for c in [r.choice(["chr1", "chr2"]) for _ in range(r.randint(2, 5))]])
        t = Bed6([x[0] for x in rows], np.array([x[1] for x in rows]), np.array([x[2] for x in rows]), ["n%d" % i for i in range(len(rows))], np.zeros(len(rows), dtype=int), [r.choice("+-") for _ in rows])
        return g, t

    def written_bytes(t, suffix):
        pth = ctx.path("c20w" + suffix)
        with bnp.open(pth, "w") as f:
            f.write(t)
        return open(pth, "rb").read()

    VCF_TEXT = "##fileformat=VCFv4.2\n#CHROM\tPOS\tID\tREF\tALT\tQUAL\tFILTER\tINFO\n"

    def eager_vcf(r):
        pth = ctx.path("c20e.vcf")
        with open(pth, "w") as f:
            f.write(VCF_TEXT + "".join("chr1\t%d\trs%d\tA\tC\t.\tPASS\t.\n" % (10 + 7 * i + r.randint(0, 3), i) for i in range(r.randint(1, 5))))
        return (bnp.open(pth, lazy=False).read(),)

    def vcf_entries(r):
        n_ = r.randint(1, 4)
        from bionumpy.datatypes import VCFEntry
        return (VCFEntry(["chr1"] * n_, np.array([5 + 3 * i for i in range(n_)], dtype=int), ["rs%d" % i for i in range(n_)], ["A"] * n_, ["C"] * n_, ["."] * n_, ["PASS"] * n_, ["."] * n_),)

    def vcf_gt_entries(r):
        from bionumpy.datatypes import VCFEntryWithGenotypes
        from bionumpy.string_array import string_array
        n_ = r.randint(1, 4)
        k_ = r.randint(1, 3)
        if r.random() < 0.5:
            gt = string_array([[r.choice(["0|1", "1|1", "0/0", "./."]) for _ in range(k_)] for _ in range(n_)])
        else:
            gt = ["\t".join(r.choice(["0|1", "1|1", "0/0"]) for _ in range(k_)) for _ in range(n_)]        # not a variants x samples matrix: the writer may refuse it
        return (VCFEntryWithGenotypes(["chr1"] * n_, np.array([5 + 3 * i for i in range(n_)], dtype=int), ["rs%d" % i for i in range(n_)], ["A"] * n_, ["C"] * n_, ["."] * n_, ["PASS"] * n_, ["X=%d" % i for i in range(n_)], gt),)

    def written_with(t, buffer_name):
        pth = ctx.path("c20wb.vcf")
        with bnp.open(pth, "w", buffer_type=tables.get_buffer_type(buffer_name)) as f:
            f.write(t)
        return open(pth, "rb").read()

    from bionumpy.sequence.translate import Translate, DNAToProtein

    pwm = PWM(np.log(np.array([[0.5, 0.25], [0.25, 0.25], [0.125, 0.25], [0.125, 0.25]])), "ACGT")

    # registry: name -> (argument factory, function)
    REG = {
        "strops.str_to_int": (lambda r: (enc(int_texts(r)),), lambda a: strops.str_to_int(a)),
        "strops.str_to_int(view)": (lambda r: (enc(["7"] + int_texts(r) + ["-3", "+4"])[r.choice([slice(1, None), slice(None, None, -1), np.array([True] + [bool(i % 2) for i in range(8)])[:0] if False else slice(2, None)])],), lambda a: strops.str_to_int(a)),
        "strops.str_to_float(view)": (lambda r: (enc(["1.0"] + float_texts(r) + ["-2.5"])[r.choice([slice(1, None), slice(None, None, -1)])],), lambda a: strops.str_to_float(a)),
        "get_reverse_complement(view)": (lambda r: (enc(["ACG"] + dna_rows(r, "ACGTN") + ["TT"])[r.choice([slice(1, None), slice(None, None, -1)])],), lambda a: get_reverse_complement(a)),
        "get_kmers(view)": (lambda r: (enc(["ACGTA"] + dna_rows(r) + ["ACGTAC"], ae.ACGTEncoding)[r.choice([slice(1, None), slice(None, None, -1)])],), lambda a: bnp.get_kmers(a, 3)),
        "strops.str_to_int(2d digits)": (lambda r: (enc(["%05d" % r.randint(0, 99999) for _ in range(3)]),), lambda a: strops.str_to_int(a)),
        "strops.str_to_float": (lambda r: (enc(float_texts(r)),), lambda a: strops.str_to_float(a)),
        "strops.str_to_int_with_missing": (lambda r: (enc(int_texts(r) + [".", ""]),), lambda a: strops.str_to_int_with_missing(a)),
        "strops.str_to_float_with_missing": (lambda r: (enc(float_texts(r) + [".", ""]),), lambda a: strops.str_to_float_with_missing(a)),
        "strops.str_to_int_with_missing(no empty row)": (lambda r: (enc(["."] + int_texts(r) + ["."]),), lambda a: strops.str_to_int_with_missing(a)),
        "strops.str_to_float_with_missing(no empty row)": (lambda r: (enc(float_texts(r) + [".", "3"]),), lambda a: strops.str_to_float_with_missing(a)),
        "strops.ints_to_strings": (lambda r: (np.array([r.randint(-10 ** 9, 10 ** 9) for _ in range(r.randint(1, 6))]),), lambda a: strops.ints_to_strings(a)),
        "strops.float_to_strings": (lambda r: (np.array([r.uniform(-5, 5) for _ in range(3)]),), lambda a: strops.float_to_strings(a)),
        "strops.int_lists_to_strings": (lambda r: (RaggedArray([np.array([r.randint(0, 99) for _ in range(r.randint(0, 4))], dtype=int) for _ in range(3)]),), lambda a: strops.int_lists_to_strings(a)),
        "strops.int_lists_to_strings(view)": (lambda r: (RaggedArray([np.array([r.randint(0, 99) for _ in range(r.randint(0, 4))], dtype=int) for _ in range(5)])[r.choice([np.array([3, 0, 4, 1]), np.array([4, 3, 2, 1, 0]), np.array([True, False, True, True, False]), slice(1, None), slice(None, None, -1)])],),
                                              lambda a: strops.int_lists_to_strings(a)),
        "strops.split(list of separators)": (lambda r: (bnp.as_encoded_array(";".join("k%d=v%d" % (i, r.randint(0, 99)) for i in range(r.randint(1, 4)))).copy(), [";", "="]), lambda a, seps: strops.split(a, seps)),
        "strops.join": (lambda r: (enc(dna_rows(r)),), lambda a: strops.join(a, "\t")),
        "strops.split": (lambda r: (bnp.as_encoded_array(",".join(str(r.randint(0, 999)) for _ in range(r.randint(1, 6)))).copy(),), lambda a: strops.split(a, ",")),
        "strops.str_equal": (lambda r: (enc(dna_rows(r)), "ACG"), lambda a, b: strops.str_equal(a, b)),
        "as_encoded_array(ragged,DNA)": (lambda r: (enc(dna_rows(r, "ACGTacgt")),), lambda a: bnp.as_encoded_array(a, bnp.DNAEncoding)),
        "change_encoding": (lambda r: (enc(dna_rows(r), ae.ACGTEncoding),), lambda a: bnp.change_encoding(a, ae.ACTGEncoding)),
        "as_encoded_array(alphabet-encoded ragged, wider alphabet)": (lambda r: (enc(dna_rows(r), ae.ACGTEncoding),), lambda a: bnp.as_encoded_array(a, ae.ACGTnEncoding)),
        "as_encoded_array(alphabet-encoded flat, wider alphabet)": (lambda r: (enc("".join(dna_rows(r)) + "A", ae.ACGTEncoding),), lambda a: bnp.as_encoded_array(a, ae.ACGTnEncoding)),
        "ragged == ragged (operands in two alphabets)": (lambda r: (lambda rows: (enc(rows, ae.ACGTnEncoding), enc(rows[::-1][::-1], ae.ACGTEncoding)))(dna_rows(r)), lambda a, b: a == b),
        "as_encoded_array(list of encoded rows)": (lambda r: (lambda x: ([x[i] for i in range(len(x))],))(enc(dna_rows(r), ae.ACGTEncoding)), lambda rows: bnp.as_encoded_array(rows)),
        "get_reverse_complement(ascii)": (lambda r: (enc(dna_rows(r, "ACGTNacgtn")),), lambda a: get_reverse_complement(a)),
        "get_reverse_complement(DNA)": (lambda r: (enc(dna_rows(r), ae.ACGTEncoding),), lambda a: get_reverse_complement(a)),
        "translate_dna_to_protein": (lambda r: (enc(dna_rows(r)),), lambda a: translate_dna_to_protein(a)),
        "translate_dna_to_protein(sequences held in the codon table's alphabet)": (lambda r: (enc(dna_rows(r, "TCAG"), DNAToProtein.from_encoding),), lambda a: translate_dna_to_protein(a)),
        "Translate().windowed(sequences held in the codon table's alphabet)": (lambda r: (enc(dna_rows(r, "TCAG") + ["ATGGCCAAGTAA"], DNAToProtein.from_encoding),), lambda a: Translate().windowed(a)),
        "translate_dna_to_protein(sequences held in the DNA alphabet)": (lambda r: (enc(dna_rows(r), ae.ACGTEncoding),), lambda a: translate_dna_to_protein(a)),
        "translate_dna_to_protein(table)": (lambda r: (lambda rows: (SequenceEntry(["s%d" % i for i in range(len(rows))], rows),))(dna_rows(r)), lambda t: translate_dna_to_protein(t)),
        "get_kmers": (lambda r: (enc(dna_rows(r) + ["ACGTAC"], ae.ACGTEncoding),), lambda a: bnp.get_kmers(a, 3)),
        "get_kmers(generic)": (lambda r: (enc(dna_rows(r, "ACGTN") + ["ACGTNA"], ae.ACGTnEncoding),), lambda a: bnp.get_kmers(a, 2)),
        "get_minimizers": (lambda r: (enc(dna_rows(r) + ["ACGTACG"], ae.ACGTEncoding),), lambda a: bnp.get_minimizers(a, 2, 4)),
        "match_string": (lambda r: (enc(dna_rows(r) + ["ACGACG"]),), lambda a: bnp.match_string(a, "CG")),
        "get_motif_scores": (lambda r: (enc(dna_rows(r) + ["ACGT"]),), lambda a: bnp.get_motif_scores(a, pwm)),
        "count_kmers": (lambda r: (enc(dna_rows(r) + ["ACGT"], ae.ACGTEncoding),), lambda a: count_kmers(a, 2)),
        "get_strand_specific_sequences": (lambda r: (bnp.as_encoded_array("ACGTNACGTTGCA").copy(), StrandedInterval(["x", "x"], [0, 3], [4, 9], ["+", "-"])), lambda a, b: get_strand_specific_sequences(a, b)),
        "get_pileup": (lambda r: (sorted_iv(r),), lambda a: np.asarray(get_pileup(a, 60).to_array())),
        "get_boolean_mask": (lambda r: (sorted_iv(r),), lambda a: np.asarray(get_boolean_mask(a, 60).to_array())),
        "merge_intervals(d=0)": (lambda r: (sorted_iv(r),), lambda a: merge_intervals(a)),
        "merge_intervals(d>0)": (lambda r: (sorted_iv(r),), lambda a: merge_intervals(a, 3)),
        "sort_intervals": (lambda r: (sorted_iv(r)[::-1],), lambda a: sort_intervals(a)),
        "count_overlap": (lambda r: (sorted_iv(r), sorted_iv(r)), lambda a, b: count_overlap(a, b)),
        "intersect": (lambda r: (sorted_iv(r), sorted_iv(r)), lambda a, b: intersect(a, b)),
        "unique_intersect": (lambda r: (sorted_iv(r), sorted_iv(r)), lambda a, b: unique_intersect(a, b, 60)),
        "clip": (lambda r: (sorted_iv(r),), lambda a: ivm.clip(a, 40)),
        "extend_to_size": (lambda r: (sorted_iv(r, strands=True),), lambda a: ivm.extend_to_size(a, 7, 60)),
        "jaccard": (lambda r: (sorted_iv(r), sorted_iv(r)), lambda a, b: jaccard({"chr1": 60}, a, b) if len(a) and len(b) else 0),
        "GenomicIntervals.get_mask": (genome_and_iv, lambda g, t: g.get_intervals(t).get_mask()),
        "GenomicIntervals.get_pileup": (genome_and_iv, lambda g, t: g.get_intervals(t).get_pileup()),
        "GenomicIntervals.merged(0)": (genome_and_iv, lambda g, t: g.get_intervals(t).merged()),
        "GenomicIntervals.merged(2)": (genome_and_iv, lambda g, t: g.get_intervals(t).merged(2)),
        "GenomicIntervals.clip": (genome_and_iv, lambda g, t: g.get_intervals(t).clip()),
        "GenomicIntervals.clip(out of range)": (genome_and_iv_out, lambda g, t: g.get_intervals(t).clip()),
        "GenomicIntervals.clip(slice of intervals)": (genome_and_iv_out, lambda g, t: g.get_intervals(t)[1:].clip()),
        "GenomicIntervals.merged(d)": (genome_and_iv, lambda g, t: g.get_intervals(t).merged(3)),
        "GenomicIntervals.extended_to_size": (genome_and_iv, lambda g, t: g.get_intervals(t, stranded=True).extended_to_size(9)),
        "GenomicIntervals.sorted": (genome_and_iv, lambda g, t: g.get_intervals(t).sorted()),
        "GenomicIntervals.get_location": (genome_and_iv, lambda g, t: g.get_intervals(t, stranded=True).get_location("stop").position),
        "GenomicArray ufunc": (genome_and_iv, lambda g, t: (g.get_intervals(t).get_pileup() + 1) * 2 > 2),
        "Geometry.clip": (geometry_and_iv, lambda g, t: g.clip(t)),
        "Geometry.clip(one interval per contig)": (geometry_and_one_each, lambda g, t: g.clip(t)),
        "Geometry.extend_to_size": (geometry_and_iv, lambda g, t: g.extend_to_size(t, 9)),
        "Geometry.get_pileup": (geometry_and_iv, lambda g, t: g.get_pileup(t)),
        "Geometry.get_mask": (geometry_and_one_each, lambda g, t: g.get_mask(t)),
        "Geometry.merge_intervals": (geometry_and_iv, lambda g, t: g.merge_intervals(t, 2)),
        "Geometry.sort": (geometry_and_iv, lambda g, t: g.sort(t[::-1])),
        "Geometry.jaccard": (lambda r: geometry_and_iv(r) + (geometry_and_iv(r)[1],), lambda g, a, b: float(g.jaccard(a, b)) if len(a) and len(b) else 0),
        "GenomicArray.to_dict/get_data": (genome_and_iv, lambda g, t: (lambda p: [{k: np.asarray(v).tolist() for k, v in p.to_dict().items()}, tables.rows_of(p.get_data())])(g.get_intervals(t).get_pileup())),
        "table[index]": (lambda r: (sorted_iv(r),), lambda a: a[::-1][: 2]),
        "np.concatenate(tables)": (lambda r: (sorted_iv(r), sorted_iv(r)), lambda a, b: np.concatenate([a, b])),
        "write(eager VCF table)": (eager_vcf, lambda t: written_bytes(t, ".vcf")),
        "write(eager BED table)": (lambda r: (sorted_iv(r),), lambda t: written_bytes(t, ".bed")),
        "write(in-memory VCF entries)": (vcf_entries, lambda t: written_bytes(t, ".vcf")),
        "write(in-memory VCF entries with genotypes, VCFBuffer2)": (vcf_gt_entries, lambda t: written_with(t, "VCFBuffer2")),
        "write(in-memory VCF entries with genotypes, VCFMatrixBuffer)": (vcf_gt_entries, lambda t: written_with(t, "VCFMatrixBuffer")),
        "Genome.from_dict(sizes).with_ignored_added": (lambda r: ({"chr1": 50, "chr2": 30, "chrM": 7},), lambda sizes: sorted(bnp.Genome.from_dict(sizes).with_ignored_added([r_name for r_name in ("chrM",)]).get_genome_context().chrom_sizes.items())),
        "Genome.with_ignored_added(genome reused)": (lambda r: (bnp.Genome.from_dict({"chr1": 50, "chr2": 30, "chrM": 7, "chrX": 5}),), lambda g: [sorted(g.with_ignored_added(["chrM"]).get_genome_context().chrom_sizes.items()), sorted(g.with_ignored_added(["chrX"]).get_genome_context().chrom_sizes.items()), sorted(g.get_genome_context().chrom_sizes.items())]),
        "table.sort_by": (lambda r: (sorted_iv(r),), lambda a: a.sort_by("stop")),
        "bnp.replace": (lambda r: (sorted_iv(r),), lambda a: bnp.replace(a, start=np.asarray(a.start) + 1)),
        "table.add_fields": (lambda r: (sorted_iv(r),), lambda a: a.add_fields({"extra": [1] * len(a)}, field_type_map={"extra": int})),
        "table.add_fields(twice, other names)": (lambda r: (sorted_iv(r),), lambda a: [sorted(f.name for f in __import__("dataclasses").fields(a.add_fields({"name": ["x"] * len(a)}, field_type_map={"name": str}))),
                                                                                              sorted(f.name for f in __import__("dataclasses").fields(a.add_fields({"score": [1] * len(a)}, field_type_map={"score": int})))]),
        "Interval.from_dict(dict with further keys)": (lambda r: ({"chromosome": ["chr1", "chr2"], "start": [1, 2], "stop": [5, 6], "name": ["a", "b"], "score": [1, 2], "strand": ["+", "-"]},), lambda d: tables.rows_of(Interval.from_dict(d))),
        "Bed6.from_dict(after Interval.from_dict of the same dict)": (lambda r: ({"chromosome": ["chr1", "chr2"], "start": [1, 2], "stop": [5, 6], "name": ["a", "b"], "score": [1, 2], "strand": ["+", "-"]},),
                                                                      lambda d: [call("x", Interval.from_dict, (d,), None)[0], tables.rows_of(Bed6.from_dict(d))]),
        "table.tolist": (lambda r: (sorted_iv(r),), lambda a: [(str(e.chromosome), int(e.start), int(e.stop)) for e in a.tolist()]),
        "table.todict": (lambda r: (sorted_iv(r),), lambda a: {k: list(v) for k, v in a.todict().items()}),
        "table.topandas": (lambda r: (sorted_iv(r),), lambda a: a.topandas().to_dict("list")),
    }

    def call(name, fn, args, wit):
        try:
            return ("ok", fn(*args))
        except Exception as e:
            if not originates_in_library(e):
                raise
            return ("raised", type(e).__name__ + ":" + str(e)[:80])

    def registry_case(case):
        r = random.Random(case["seed"])
        name = case["name"]
        make, fn = REG[name]
        args = make(r)
        before = snap(args)            # (nothing else may look at the arguments before the call: decoding a view materialises it)
        wit = {"entry": name, "seed": case["seed"], "args_snapshot": repr(before)[:600]}
        nt = (name, before) if len(repr(before)) > 120 else None
        res1 = call(name, fn, args, wit)
        after = snap(args)
        ctx.check("inputs-unchanged", before == after, "%s/argument-modified" % name, "%s changed its argument(s)%s" % (name, " (while raising)" if res1[0] == "raised" else ""), dict(wit, outcome=res1[0]), nt)
        if before != after:
            return
        res2 = call(name, fn, args, wit)
        r1 = result_repr(res1[1]) if res1[0] == "ok" else res1[1]
        r2 = result_repr(res2[1]) if res2[0] == "ok" else res2[1]
        ctx.check("same-result-twice", r1 == r2, "%s/second-call-differs" % name, "%s gave %s then %s on the same arguments" % (name, r1[:120], r2[:120]), dict(wit, first=r1[:400], second=r2[:400]), nt and (nt, 2))
        ctx.check("inputs-unchanged", snap(args) == before, "%s/argument-modified" % name, "%s changed its argument(s) on the second call" % name, wit, None)
        # write barrier amplifier (evidence only)
        frozen = freeze(list(args))
        try:
            try:
                fn(*args)
            except ValueError as e:
                if "read-only" in str(e):
                    et, site = exc_site(e)
                    ctx.observe("write-barrier-hit:%s@%s" % (name, site))
            except Exception:
                pass
        finally:
            for a in frozen:
                a.flags.writeable = True
        ctx.count("barrier_runs")

    # ---- a selection of a lazily read BAM table handed to the writer: its fields read afterwards are those of an identical selection that was not written -----
    def lazy_bam_case(case):
        from bnpmon.models import bam as R2
        from bnpmon.workloads.C16 import gen_record
        r = random.Random(case["seed"])
        refs = [("chr1", 10 ** 6), ("chr2", 10 ** 6)]
        n = r.randint(3, 10)
        recs = [gen_record(r, 2) for _ in range(n)]
        if r.random() < 0.5:
            base = recs[0]          # equal-size records (short-read layout)
            recs = [dict(base, name="".join(r.choice("abcxyz0123") for _ in base["name"]), pos=r.randint(0, 10 ** 5), seq="".join(r.choice("ACGT") for _ in base["seq"]),
                         qual=None if base["qual"] is None else [r.randint(0, 60) for _ in base["seq"]]) for _ in range(n)]
        data, _ = R2.encode_bam(refs, recs, [])
        path = ctx.path("c20.bam")
        with open(path, "wb") as f:
            f.write(data)
        t = bnp.open(path).read()
        kind = r.choice(["perm", "step", "mask", "rev"])
        if kind == "perm":
            idx = np.array(r.sample(range(n), r.randint(2, n)))
        elif kind == "step":
            idx = slice(1, None, 2)
        elif kind == "mask":
            idx = np.array([i % 2 == 1 or r.random() < 0.3 for i in range(n)])
        else:
            idx = slice(None, None, -1)
        written_sel, twin = t[idx], t[idx]
        FIELDS = ["name", "cigar_op", "cigar_length", "sequence", "quality", "position", "flag", "mapq"]
        first = r.choice(FIELDS[:5])
        wit = {"seed": case["seed"], "n": n, "selection": kind, "index": str(idx)[:80], "field_read_before_the_write": first}
        try:
            for obj in (written_sel, twin):
                getattr(obj, first)
            with bnp.open(ctx.path("c20o.bam"), "w") as f:
                f.write(written_sel)
            bad = []
            for fld in FIELDS:
                a_, b_ = result_repr(tables.column(written_sel, fld)), result_repr(tables.column(twin, fld))
                if a_ != b_:
                    bad.append((fld, a_[:80], b_[:80]))
        except Exception as e:
            if not originates_in_library(e):
                raise
            et, site = exc_site(e)
            ctx.check("write-leaves-argument", False, "write(lazy BAM selection)/fields-raise-after-the-write:%s@%s" % (et, site), "reading the fields of a written BAM selection raised %s: %s" % (et, str(e)[:100]), wit, None)
            return
        ctx.check("write-leaves-argument", not bad, "write(lazy BAM selection)/fields-differ-after-the-write", "after writing table[%s] its fields %r read differently from an identical selection that was not written: %r" % (kind, [b[0] for b in bad], bad[:2]),
                  dict(wit, differing=[list(b) for b in bad[:4]]), (data, kind, str(idx), first))
        ctx.count("lazy_bam_selections_written")

    for i in range(ctx.share(ctx.pick(240, 3000))):
        ctx.run_case(lazy_bam_case, {"seed": rng.randrange(2 ** 40)})

    # ---- lazily read chunks of every format ----------------------------------------------------------
    LAZY_FORMATS = [("bed6", None), ("bed12", None), ("bdg", None), ("narrowpeak", None), ("fastq", None), ("fasta2", None), ("vcf", None), ("vcf_gt", "VCFMatrixBuffer"), ("vcf_gt", "VCFBuffer2"),
                    ("vcf_phased", "PhasedVCFMatrixBuffer"), ("sam", None), ("gff3", None), ("pairs", None), ("sizes", None)]

    def lazy_case(case):
        r = random.Random(case["seed"])
        fname, buffer = case["fmt"], case["buffer"]
        fmt = FORMATS[fname]
        style = {"noncanon": r.random() < 0.5, "eol": "\n", "final_newline": case["final_newline"], "score_mode": "int", "tags": True, "trailing_comma": r.random() < 0.3}
        fc = make_file(fname, r, r.randint(1, 6), "normal", style)
        path = tables.write_case_file(ctx, fc)
        bt = tables.get_buffer_type(buffer or fmt.buffer)
        mode = case["mode"]
        if mode == "whole":
            chunks = [bnp.open(path, buffer_type=bt).read()]
        else:
            k = max(7, min(len(x) for x in fc["raws"]) // 2)            # entries longer than k: chunks are assembled from several reads (writable buffers)
            chunks = list(bnp.open(path, buffer_type=bt).read_chunks(min_chunk_size=k))
        wit = {"format": fname, "buffer": buffer, "mode": mode, "final_newline": case["final_newline"], "seed": case["seed"], "source": fc["data"].decode("latin1")[:800]}
        for ci, chunk in enumerate(chunks):
            if not hasattr(chunk, "_itemgetter"):
                continue

            def written():
                p = ctx.path("c20" + fmt.suffix)
                with bnp.open(p, "w", buffer_type=bt) as f:
                    f.write(chunk)
                return open(p, "rb").read()
            try:
                w0 = written()
            except Exception as e:
                if not originates_in_library(e):
                    raise
                ctx.observe("chunk-not-writable:%s" % fname)
                continue
            before = snap(chunk)
            fields = [f.name for f in __import__("dataclasses").fields(chunk)]
            r.shuffle(fields)
            vals1 = {}
            for f in fields:
                try:
                    vals1[f] = result_repr(getattr(chunk, f))
                except Exception as e:
                    if not originates_in_library(e):
                        raise
                    vals1[f] = "raised:" + type(e).__name__
            nt = (fc["data"], buffer, mode, ci)
            ctx.check("chunk-buffer-unchanged", snap(chunk)[1] == before[1], "lazy-chunk/%s/buffer-bytes-changed-by-field-access" % fname, "inspecting the fields of a %s chunk changed its raw buffer" % fname, wit, nt)
            w1 = written()
            ctx.check("chunk-writes-same-bytes", w0 == w1, "lazy-chunk/%s/written-bytes-changed-by-field-access" % fname, "a %s chunk writes different bytes after its fields were read: %r vs %r" % (fname, w0[-120:], w1[-120:]),
                      dict(wit, before=w0.decode("latin1")[-500:], after=w1.decode("latin1")[-500:]), (nt, "w"))
            # derived tables: a slice written, and a replace after an explicit assignment, must leave the chunk as it is
            if len(chunk) >= 2 and fname not in ("fastq", "fasta2"):
                a = r.randint(1, len(chunk) - 1)
                child = chunk[a:]
                pc = ctx.path("c20child" + fmt.suffix)
                try:
                    with bnp.open(pc, "w", buffer_type=bt) as f:
                        f.write(child)
                except Exception as e:
                    if not originates_in_library(e):
                        raise
                chunk._computed_values.clear()
                vals_after = {}
                for f_ in fields:
                    try:
                        vals_after[f_] = result_repr(getattr(chunk, f_))
                    except Exception as e:
                        if not originates_in_library(e):
                            raise
                        vals_after[f_] = "raised:" + type(e).__name__
                badf = [f_ for f_ in fields if vals_after[f_] != vals1[f_]]
                ctx.check("chunk-unchanged-by-writing-a-slice", not badf, "lazy-chunk/%s/fields-changed-after-a-slice-of-it-was-written" % fname, "after writing chunk[%d:], fields %r of the chunk read differently: %r vs %r" % (a, badf, [vals_after[x][:60] for x in badf][:2], [vals1[x][:60] for x in badf][:2]),
                          dict(wit, slice_start=a, fields=badf), (nt, "slice"))
            int_fields = [f_ for f_ in fields if f_ in ("start", "stop", "position", "pos1", "size")]
            if len(int_fields) >= 1 and len(chunk):
                f1 = int_fields[0]
                other = [f_ for f_ in fields if f_ != f1 and f_ in ("stop", "score", "pos2", "mapq", "summit", "start")]
                try:
                    setattr(chunk, f1, np.asarray(getattr(chunk, f1)) + 1)          # explicit attribute assignment (allowed to change the chunk)
                    snap_set = dict((k, np.asarray(v).tolist()) for k, v in chunk._set_values.items())
                    w_before = written()
                    if other:
                        derived = bnp.replace(chunk, **{other[0]: np.asarray(getattr(chunk, other[0])) + 5})
                        snap_set2 = dict((k, np.asarray(v).tolist()) for k, v in chunk._set_values.items())
                        w_after = written()
                        ctx.check("chunk-unchanged-by-replace", snap_set == snap_set2 and w_before == w_after, "lazy-chunk/%s/replace-changed-the-table-it-was-called-on" % fname,
                                  "bnp.replace(chunk, %s=...) changed the chunk itself (assigned fields %r -> %r)" % (other[0], sorted(snap_set), sorted(snap_set2)), dict(wit, assigned=f1, replaced=other[0]), (nt, "repl"))
                except Exception as e:
                    if not originates_in_library(e):
                        raise
                    ctx.observe("assign-then-replace-raised:%s:%s" % (fname, type(e).__name__))
                chunk._set_values.clear()
            # parse again from a fresh handle on the same chunk object: same values
            chunk._computed_values.clear()
            vals2 = {}
            for f in fields:
                try:
                    vals2[f] = result_repr(getattr(chunk, f))
                except Exception as e:
                    if not originates_in_library(e):
                        raise
                    vals2[f] = "raised:" + type(e).__name__
            bad = [f for f in fields if vals1[f] != vals2[f]]
            ctx.check("chunk-fields-same-twice", not bad, "lazy-chunk/%s/field-differs-on-second-parse" % fname, "fields %r of a %s chunk parse differently the second time" % (bad, fname), dict(wit, fields=bad), (nt, "2"))

    names = list(REG)
    for i in range(ctx.share(ctx.pick(40 * len(names), 1500 * len(names)))):
        ctx.run_case(registry_case, {"name": names[i % len(names)], "seed": rng.randrange(2 ** 40)})
    for i in range(ctx.share(ctx.pick(30 * len(LAZY_FORMATS), 1500 * len(LAZY_FORMATS)))):
        fname, buffer = LAZY_FORMATS[i % len(LAZY_FORMATS)]
        ctx.run_case(lazy_case, {"fmt": fname, "buffer": buffer, "seed": rng.randrange(2 ** 40), "mode": rng.choice(["whole", "chunked"]), "final_newline": rng.random() < 0.6})
    ctx.meta["registry_entries"] = len(names) + len(LAZY_FORMATS)
    ctx.sample({"entry": "strops.str_to_int", "args": ["-12", "+7", "305"], "checks": "snapshot before == after, second call equal, frozen-buffer repeat"})
    ctx.floor("judged:inputs-unchanged", ctx.pick(500, 20000))
    ctx.floor("judged:chunk-writes-same-bytes", ctx.pick(100, 5000))
    ctx.floor("barrier_runs", ctx.pick(300, 10000))


def replay(ctx, w):
    pass
