"""C13 — sliding-window sequence functions are row-local and match their definitions.

Boundary monitor against row-local pure-Python definitions (R4) + neighbour-perturbation monitor + result-bounds sanitizer (M6).
"""
import math
import random
from collections import Counter

import numpy as np

RULE = ("lists of 1..4 sequences with lengths drawn from {0, w-1, w, w+1, random<=9 (long rows for large w)} incl. short last row, window/k from 1 to 31 "
        "(minimizer window >= k), alphabets of size 4 (ACGT, ACTG, ACUG: bit-packed path) and others (ACGTn, amino acids: generic path), total letters >= window; "
        "functions: get_kmers, get_minimizers, match_string, get_motif_scores, count_kmers, KmerEncoding.encode/to_string; one evaluation = one "
        "(function, input) compared row by row with the definition; distinct = (function, sequences, parameters); non-trivial = >= 2 rows or a row longer than the window")
ASSUMPTIONS = ["k-mer code = sum idx(c_j)*|A|^j (first letter least significant), compared only while |A|^k < 2^63",
               "row-local Python definitions (R4) are the reference"]
EXHAUSTIVE_CORE = None

ALPHABETS = {"ACGTEncoding": "ACGT", "ACTGEncoding": "ACTG", "ACUGEncoding": "ACUG", "ACGTnEncoding": "ACGTN", "AminoAcidEncoding": "ACDEFGHIKLMNPQRSTVWY*",
             "custom:AB": "AB", "custom:XYZ": "XYZ", "custom:ACGTRYKM": "ACGTRYKM"}


def preload():
    import bionumpy  # noqa
    import bionumpy.sequence.kmers, bionumpy.sequence.minimizers, bionumpy.sequence.string_matcher, bionumpy.sequence.position_weight_matrix  # noqa


def kmer_code(s, alphabet):
    n = len(alphabet)
    return sum(alphabet.index(c) * n ** j for j, c in enumerate(s))


def windows(s, w):
    return [s[i:i + w] for i in range(len(s) - w + 1)] if len(s) >= w else []


def gen_rows(rng, alphabet, w, nrows=None):
    nrows = nrows or rng.choice([1, 1, 2, 3, 4])
    rows = []
    for _ in range(nrows):
        L = rng.choice([0, max(w - 1, 0), w, w + 1, rng.randint(0, 9), rng.randint(w, w + 6)])
        rows.append("".join(rng.choice(alphabet) for _ in range(L)))
    if rng.random() < 0.4:
        rows.append("".join(rng.choice(alphabet) for _ in range(rng.randint(0, max(w - 1, 0)))))   # short last row
    if sum(map(len, rows)) < w:
        rows[0] = "".join(rng.choice(alphabet) for _ in range(w + rng.randint(0, 2)))
    return rows


def perturb(rows, rng, alphabet, keep):
    out = list(rows)
    for j in range(len(rows)):
        if j != keep and rows[j]:
            out[j] = "".join(rng.choice(alphabet) for _ in rows[j])
    return out


def run(ctx):
    import bionumpy as bnp
    from bionumpy.encodings import alphabet_encoding as ae
    from bionumpy.sequence import count_kmers
    from bionumpy.sequence.position_weight_matrix import PWM
    from bionumpy.encodings.kmer_encodings import KmerEncoding
    from bnpmon.util import bounds_violation
    rng = ctx.rng
    encs = {n: (getattr(ae, n) if not n.startswith("custom:") else ae.AlphabetEncoding(ALPHABETS[n])) for n in ALPHABETS}

    def selected(seqs, rows, c):
        """optionally hand the function a row SELECTION (a view: nothing materialises it before the call)"""
        sel = c.get("select")
        if not sel:
            how = (sum(map(len, rows)) + len(rows)) % 7
            if how == 0 and len(rows) >= 1:
                # the collection handed over as a Python list of encoded rows (empty rows among them), as iterating another collection gives
                ctx.count("collections_given_as_lists_of_encoded_rows")
                return bnp.as_encoded_array([seqs[i] for i in range(len(rows))]), rows
            if how == 1:
                # ... or after a trip through pickle / deepcopy (a worker process, a cache)
                import copy as _copy, pickle as _pickle
                ctx.count("collections_pickled_or_deepcopied")
                try:
                    return (_pickle.loads(_pickle.dumps(seqs)) if len(rows) % 2 else _copy.deepcopy(seqs)), rows
                except Exception:
                    return seqs, rows
            return seqs, rows
        if sel[0] == "fancy":
            return seqs[np.array(sel[1], dtype=int)], [rows[i] for i in sel[1]]
        if sel[0] == "slice":
            return seqs[sel[1]:], rows[sel[1]:]
        if sel[0] == "reverse":
            return seqs[::-1], rows[::-1]
        if sel[0] == "step":
            return seqs[::2], rows[::2]
        if sel[0] == "mask":
            m = np.array(sel[1], dtype=bool)
            return seqs[m], [x for x, k in zip(rows, sel[1]) if k]
        return seqs, rows

    def gen_select(rows, w):
        n = len(rows)
        if n < 2 or rng.random() < 0.6:
            return None
        k = rng.random()
        if k < 0.4:
            sel = ("fancy", [rng.randrange(n) for _ in range(rng.randint(1, n + 1))])
            kept = [rows[i] for i in sel[1]]
        elif k < 0.55:
            a = rng.randint(1, n - 1)
            sel, kept = ("slice", a), rows[a:]
        elif k < 0.65:
            sel, kept = ("reverse",), rows[::-1]
        elif k < 0.7:
            sel, kept = ("step",), rows[::2]
        else:
            mk = [rng.random() < 0.6 for _ in rows]
            sel, kept = ("mask", mk), [x for x, q in zip(rows, mk) if q]
        if sum(map(len, kept)) < w or not kept:
            return None
        return sel

    def wclass(w):
        return "w=1" if w == 1 else ("w>=2")

    def sanitize(res, fn, case):
        b = bounds_violation(res)
        ctx.count("m6_bounds_checked")
        if b:
            ctx.violation("bounds/%s" % fn, "result of %s: %s" % (fn, b), case)

    def case_kmers(c):
        ename, rows, k = c["enc"], c["rows"], c["k"]
        alphabet = ALPHABETS[ename]
        enc = encs[ename]
        seqs = bnp.as_encoded_array(rows, enc) if not c.get("ascii") else bnp.as_encoded_array(rows)       # plain text reads (base encoding) are accepted for DNA
        seqs, rows = selected(seqs, rows, c)
        res = bnp.get_kmers(seqs, k)
        sanitize(res, "get_kmers", c)
        codes = res.raw().tolist()
        exp_w = [windows(r, k) for r in rows]
        nontriv = (ename, tuple(rows), k) if (len(rows) >= 2 or len(rows[0]) > k) else None
        lens_ok = [len(x) for x in codes] == [len(x) for x in exp_w]
        ctx.check("get_kmers:count", lens_ok, "get_kmers/windows-per-row:%s" % wclass(k), "get_kmers k=%d gives %r windows per row, definition gives %r" % (k, [len(x) for x in codes], [len(x) for x in exp_w]),
                  dict(c, got=[len(x) for x in codes], expected=[len(x) for x in exp_w]), nontriv)
        if not lens_ok:
            return
        if len(alphabet) ** k < 2 ** 63:
            exp_codes = [[kmer_code(x, alphabet) for x in ws] for ws in exp_w]
            ctx.check("get_kmers:code", codes == exp_codes, "get_kmers/code:%s" % ("bitpacked" if len(alphabet) == 4 else "generic"), "k-mer codes differ from little-endian base-|A| numbers",
                      dict(c, got=codes[:3], expected=exp_codes[:3]), nontriv)
        else:
            ctx.observe("generic-path-kmer-code-exceeds-int64:|A|^k>=2^63", c)
        kenc = res.encoding
        # single elements of the result: res[i, j] is the j-th window of sequence i and renders its text; a j past the last window of a row is refused
        cells = [(i_, j_) for i_, ws in enumerate(exp_w) for j_ in range(len(ws))]
        if cells and len(alphabet) ** k < 2 ** 63:
            for i_, j_ in [cells[0], cells[-1], cells[len(cells) // 2]]:
                el = res[i_, j_]
                txt_ = el.to_string() if hasattr(el, "to_string") else str(el)
                ctx.check("kmer:to_string", txt_ == exp_w[i_][j_], "kmer-element/text", "get_kmers(...)[%d, %d] renders %r, the window reads %r" % (i_, j_, txt_, exp_w[i_][j_]), dict(c, cell=[i_, j_], got=txt_, expected=exp_w[i_][j_]), (ename, exp_w[i_][j_], "el"))
            short = [i_ for i_, ws in enumerate(exp_w[:-1]) if len(exp_w) >= 2]
            if short:
                i_ = short[0]
                try:
                    beyond = res[i_, len(exp_w[i_])]
                    bt_ = beyond.to_string() if hasattr(beyond, "to_string") else str(beyond)
                    ctx.check("get_kmers:count", False, "kmer-element/lookup-past-the-last-window-of-a-row-answered", "get_kmers(...)[%d, %d] (row %d has %d windows) returned %r" % (i_, len(exp_w[i_]), i_, len(exp_w[i_]), bt_), dict(c, row=i_, got=bt_), (ename, tuple(rows), k, "beyond"))
                except IndexError:
                    ctx.judged("get_kmers:count", (ename, tuple(rows), k, "beyond"))
                except Exception as e:
                    from bnpmon.ctx import originates_in_library
                    if not originates_in_library(e):
                        raise
                    ctx.judged("get_kmers:count", (ename, tuple(rows), k, "beyond"))
        flat = [(code, w) for cs, ws in zip(codes, exp_w) for code, w in zip(cs, ws)][:6]
        if len(alphabet) ** k < 2 ** 63:
            for code, wtxt in flat:
                got = kenc.to_string(np.int64(code))
                ctx.check("kmer:to_string", got == wtxt, "kmer-to_string", "KmerEncoding.to_string(%d) = %r, window text %r" % (code, got, wtxt), dict(c, code=code, got=got, expected=wtxt), (ename, wtxt))
        # row-locality: perturbing the other rows leaves row i unchanged
        if len(rows) >= 2:
            i = rng.randrange(len(rows))
            other = perturb(rows, rng, alphabet, i)
            res2 = bnp.get_kmers(bnp.as_encoded_array(other, enc), k).raw().tolist()
            ctx.check("get_kmers:row-local", res2[i] == codes[i], "get_kmers/row-depends-on-neighbours", "row %d changed when other rows were perturbed" % i, dict(c, other=other, row=i), (ename, tuple(rows), tuple(other), k))

    def case_count(c):
        ename, rows, k = c["enc"], c["rows"], c["k"]
        alphabet = ALPHABETS[ename]
        if len(alphabet) ** k > 5000:
            return
        seqs = bnp.as_encoded_array(rows, encs[ename]) if not c.get("ascii") else bnp.as_encoded_array(rows)
        seqs, rows = selected(seqs, rows, c)
        res = count_kmers(seqs, k)
        exp = Counter(w for r in rows for w in windows(r, k))
        labels = res.alphabet if hasattr(res, "alphabet") else None
        counts = np.asarray(res.counts).ravel().tolist()
        got = {l: n for l, n in zip(labels, counts) if n}
        ctx.check("count_kmers", got == dict(exp), "count_kmers/counts:%s" % wclass(k), "count_kmers differs from Counter of windows: %r vs %r" % (dict(list(got.items())[:4]), dict(list(exp.items())[:4])),
                  dict(c, got=got, expected=dict(exp)), (ename, tuple(rows), k))
        # counts per sequence (axis=-1): row i of the count matrix is the window multiset of sequence i, rows shorter than k included (all zero)
        try:
            res_rows = count_kmers(seqs, k, axis=-1)
            mat = np.asarray(res_rows.counts)
            lab_rows = list(res_rows.alphabet)
            got_rows = [{l: int(n) for l, n in zip(lab_rows, rowc) if n} for rowc in mat.tolist()] if mat.ndim == 2 else None
        except Exception as e:
            from bnpmon.ctx import originates_in_library
            if not originates_in_library(e):
                raise
            got_rows = "raised %s" % type(e).__name__
        exp_rows = [dict(Counter(windows(r, k))) for r in rows]
        ctx.check("count_kmers", got_rows == exp_rows, "count_kmers/counts-per-sequence(axis=-1)", "count_kmers(axis=-1) gave %r, the windows of each sequence are %r" % (str(got_rows)[:200], str(exp_rows)[:200]),
                  dict(c, got=str(got_rows)[:600], expected=str(exp_rows)[:600]), (ename, tuple(rows), k, "axis") if any(len(r) < k for r in rows) and any(len(r) >= k for r in rows) else None)
        ctx.count("count_kmers_per_sequence")
        # the accessors of the counts object agree with the same multiset
        if got == dict(exp) and exp:
            total_w = sum(exp.values())
            ad = {l: int(np.asarray(v).ravel()[0]) for l, v in res.as_dict().items() if int(np.asarray(v).ravel()[0])}
            lab = next(iter(exp))
            by_item = int(np.asarray(res[lab]).ravel()[0])
            props = np.asarray(res.proportions).ravel()
            mc = res.most_common(3)
            mc_pairs = list(zip(mc.alphabet, np.asarray(mc.counts).ravel().tolist()))
            top3 = sorted(exp.values(), reverse=True)[:3]
            ok_acc = (ad == dict(exp) and by_item == exp[lab] and abs(float(props.sum()) - 1.0) < 1e-9 and all(abs(float(props[list(res.alphabet).index(l)]) - n_ / total_w) < 1e-12 for l, n_ in exp.items())
                      and [n_ for _, n_ in mc_pairs][:len(top3)] == top3 and all(exp.get(l, 0) == n_ for l, n_ in mc_pairs))
            ctx.check("count_kmers", ok_acc, "count_kmers/accessors-disagree-with-the-counts", "as_dict / [label] / proportions / most_common disagree with the window multiset: %r, %r, %r" % (dict(list(ad.items())[:3]), by_item, mc_pairs),
                      dict(c, as_dict=ad, most_common=mc_pairs), (ename, tuple(rows), k, "accessors"))
        # per-sample results kept while a total is accumulated from them (0 + c1 + c2, +=): the samples keep their own counts
        half = len(rows) // 2
        if len(rows) >= 2 and got == dict(exp) and sum(map(len, rows[:half])) >= k and sum(map(len, rows[half:])) >= k:
            parts = [count_kmers(seqs[:half], k), count_kmers(seqs[half:], k)]
            first_before = np.asarray(parts[0].counts).ravel().tolist()
            total = 0
            for pc in parts:
                total += pc
            tot = {l: n for l, n in zip(total.alphabet, np.asarray(total.counts).ravel().tolist()) if n}
            first_after = np.asarray(parts[0].counts).ravel().tolist()
            ctx.check("count_kmers", tot == dict(exp) and first_after == first_before, "count_kmers/accumulated-total-or-sample-changed", "0 + counts of the two halves gave %r (expected %r); first sample before/after the accumulation: %r / %r" % (dict(list(tot.items())[:4]), dict(list(exp.items())[:4]), first_before[:6], first_after[:6]),
                      dict(c, total=tot), (ename, tuple(rows), k, "acc"))

    def case_minimizers(c):
        ename, rows, k, w = c["enc"], c["rows"], c["k"], c["w"]
        alphabet = ALPHABETS[ename]
        if len(alphabet) ** k >= 2 ** 63:
            return
        seqs = bnp.as_encoded_array(rows, encs[ename])
        seqs, rows = selected(seqs, rows, c)
        res = bnp.get_minimizers(seqs, k, w)
        sanitize(res, "get_minimizers", c)
        got = res.raw().tolist()
        exp = [[min(kmer_code(x, alphabet) for x in windows(win, k)) for win in windows(r, w)] for r in rows]
        nontriv = (ename, tuple(rows), k, w) if (len(rows) >= 2 or len(rows[0]) > w) else None
        ctx.check("get_minimizers", got == exp, "get_minimizers/values:%s" % ("k=w=1" if w == 1 else wclass(w)), "minimizers differ from per-window minimum k-mer code", dict(c, got=got[:3], expected=exp[:3]), nontriv)

    def case_match(c):
        ename, rows, pat = c["enc"], c["rows"], c["pattern"]
        if ename == "ascii":
            seqs = bnp.as_encoded_array(rows)
        else:
            seqs = bnp.as_encoded_array(rows, encs[ename])
        seqs, rows = selected(seqs, rows, c)
        exp = [[wd == pat for wd in windows(r, len(pat))] for r in rows]
        PAT_ENC = {"ACGTEncoding": ["ACTGEncoding", "ACGTnEncoding"], "ACTGEncoding": ["ACGTEncoding"], "ACGTnEncoding": ["ACGTEncoding", "ACTGEncoding"], "ACUGEncoding": []}
        if ename in PAT_ENC and PAT_ENC[ename] and set(pat) <= set("ACGT") and hash((pat, tuple(rows))) % 4 == 0:
            # the pattern is handed over already encoded, in an alphabet that orders the letters differently (or is wider): occurrences of its TEXT, or a refusal
            pe = PAT_ENC[ename][hash(pat) % len(PAT_ENC[ename])]
            pobj = bnp.as_encoded_array(pat, encs[pe])
            try:
                res_ = bnp.match_string(seqs, pobj)
                got_ = [[bool(x) for x in r] for r in res_.tolist()]
            except Exception as e:
                from bnpmon.ctx import originates_in_library
                if not originates_in_library(e):
                    raise
                got_ = None
                ctx.count("match_string_pattern_in_another_alphabet_refused")
            if got_ is not None:
                ctx.check("match_string", got_ == exp, "match_string/pattern-encoded-in-another-alphabet", "match_string(%s sequences, %r encoded as %s) marks %r, the text occurs at %r" % (ename, pat, pe, got_[:3], exp[:3]),
                          dict(c, pattern_encoding=pe, got=got_[:3], expected=exp[:3]), (ename, tuple(rows), pat, pe))
            ctx.count("match_string_pattern_in_another_alphabet")
        res = bnp.match_string(seqs, pat)
        sanitize(res, "match_string", c)
        got = [[bool(x) for x in r] for r in res.tolist()]
        nontriv = (ename, tuple(rows), pat) if (len(rows) >= 2 or len(rows[0]) > len(pat)) else None
        ctx.check("match_string", got == exp, "match_string/positions:%s" % wclass(len(pat)), "match_string differs from per-row window comparison", dict(c, got=got[:3], expected=exp[:3]), nontriv)

    def case_edit_between_calls(c):
        """the same array object handed to a window function, edited in place by the caller (one letter), and handed over again: the second result is
        that of the letters the array holds now; the first result, still held, is that of the letters it held then"""
        ename, rows, k, fn = c["enc"], list(c["rows"]), c["k"], c["fn2"]
        alphabet = "ACGT" if ename == "ascii" else ALPHABETS[ename]
        r_ = random.Random(c["seed"])
        seqs = bnp.as_encoded_array(rows) if ename == "ascii" else bnp.as_encoded_array(rows, encs[ename])
        pat = c["pattern"]

        def run_fn():
            if fn == "get_kmers":
                return [list(map(int, x)) for x in bnp.get_kmers(seqs, k).raw().tolist()]
            if fn == "count_kmers":
                res = count_kmers(seqs, k)
                return {l: int(n) for l, n in zip(res.alphabet, np.asarray(res.counts).ravel().tolist()) if n}
            if fn == "get_minimizers":
                return [list(map(int, x)) for x in bnp.get_minimizers(seqs, k, k + 2).raw().tolist()]
            return [[bool(x) for x in row] for row in bnp.match_string(seqs, pat).tolist()]

        def model(rws):
            if fn == "get_kmers":
                return [[kmer_code(x, alphabet) for x in windows(r, k)] for r in rws]
            if fn == "count_kmers":
                return dict(Counter(w for r in rws for w in windows(r, k)))
            if fn == "get_minimizers":
                return [[min(kmer_code(x, alphabet) for x in windows(wd, k)) for wd in windows(r, k + 2)] for r in rws]
            return [[wd == pat for wd in windows(r, len(pat))] for r in rws]

        first = run_fn()
        i = r_.choice([q for q, x in enumerate(rows) if x])
        j = r_.randrange(len(rows[i]))
        new = r_.choice([a for a in alphabet if a != rows[i][j].upper()])
        before = list(rows)
        seqs[i, j] = new
        rows[i] = rows[i][:j] + new + rows[i][j + 1:]
        second = run_fn()
        key = (ename, tuple(before), k, fn, i, j, new)
        ctx.check(fn + ":again-after-edit", second == model([x.upper() for x in rows]), "%s/result-of-the-old-letters-after-an-in-place-edit" % fn, "%s on the same array after x[%d, %d] = %r gave %r, the letters now held give %r" % (fn, i, j, new, str(second)[:120], str(model([x.upper() for x in rows]))[:120]),
                  dict(c, edited_rows=rows, got=str(second)[:400]), key)
        ctx.check(fn + ":again-after-edit", first == model([x.upper() for x in before]), "%s/held-result-changed-by-an-edit-of-the-argument" % fn, "the first result of %s reads %r after the argument was edited" % (fn, str(first)[:120]), dict(c, got=str(first)[:400]), None)
        ctx.count("edit_between_calls")

    def case_motif(c):
        rows, mat, alphabet, ename = c["rows"], c["matrix"], c["alphabet"], c["enc"]
        w = len(mat[0])
        with np.errstate(divide="ignore"):
            pwm = PWM(np.log(np.array(mat, dtype=float)), alphabet)
            logm = np.log(np.array(mat, dtype=float))
            if c.get("background"):
                # the other constructor: probabilities per letter plus a background given as a dict, its keys written in another order than the matrix rows
                bg = c["background"]
                pwm = PWM.from_dict({ch: list(mat[i]) for i, ch in enumerate(alphabet)}, background=dict(sorted(bg.items(), key=lambda kv: c["background_order"].index(kv[0]))))
                logm = logm - np.log(np.array([bg[ch] for ch in alphabet]))[:, None]
        seqs = bnp.as_encoded_array(rows) if ename == "ascii" else bnp.as_encoded_array(rows, encs[ename])
        seqs, rows = selected(seqs, rows, c)
        if ename in ("ACTGEncoding", "ACGTnEncoding"):
            # reads already encoded with the motif's letters in another order / a larger alphabet: the scores of the TEXT, or a refusal
            try:
                res = bnp.get_motif_scores(seqs, pwm)
            except Exception as e:
                from bnpmon.ctx import originates_in_library
                if not originates_in_library(e):
                    raise
                ctx.judged("get_motif_scores", None)
                ctx.count("motif_refused_for_other_letter_order")
                return
        else:
            res = bnp.get_motif_scores(seqs, pwm)
        sanitize(res, "get_motif_scores", c)
        got = res.tolist()
        exp = [[float(sum(logm[alphabet.index(ch), j] for j, ch in enumerate(wd))) for wd in windows(r, w)] for r in rows]
        ok = len(got) == len(exp) and all(len(g) == len(e) and all((g1 == e1) or (not math.isinf(e1) and not math.isinf(g1) and abs(g1 - e1) <= 1e-9 * max(1, abs(e1))) for g1, e1 in zip(g, e)) for g, e in zip(got, exp))
        nontriv = (tuple(rows), repr(mat)) if (len(rows) >= 2 or len(rows[0]) > w) else None
        ctx.check("get_motif_scores", ok, "get_motif_scores/values:%s" % wclass(w), "motif scores differ from per-window sums", dict(c, got=got[:3], expected=exp[:3]), nontriv)

    def case_kmer_encoding(c):
        ename, k, kmers = c["enc"], c["k"], c["kmers"]
        alphabet = ALPHABETS[ename]
        if len(alphabet) ** k >= 2 ** 63:
            return
        ke = KmerEncoding(encs[ename], k)
        enc = ke.encode(kmers)
        got = np.asarray(enc.raw()).tolist()
        exp = [kmer_code(x, alphabet) for x in kmers]
        ctx.check("KmerEncoding.encode", got == exp, "KmerEncoding.encode/code", "KmerEncoding.encode differs", dict(c, got=got, expected=exp), (ename, tuple(kmers)))
        back = [ke.to_string(np.int64(v)) for v in got]
        ctx.check("KmerEncoding.roundtrip", back == kmers, "KmerEncoding.to_string/inverse", "to_string(encode(x)) != x", dict(c, got=back), (ename, tuple(kmers), "rt"))

    n = ctx.share(ctx.pick(6000, 400000))
    for i in range(n):
        ename = rng.choice(list(ALPHABETS))
        alphabet = ALPHABETS[ename]
        r = rng.random()
        w = 1 if r < 0.12 else (rng.randint(2, 6) if r < 0.75 else rng.randint(7, 31))
        rows = gen_rows(rng, alphabet, w)
        kind = rng.random()
        if kind < 0.3:
            ctx.run_case(case_kmers, {"fn": "get_kmers", "enc": ename, "rows": rows, "k": w, "select": gen_select(rows, w), "ascii": ename == "ACGTEncoding" and rng.random() < 0.4})
        elif kind < 0.4:
            ctx.run_case(case_count, {"fn": "count_kmers", "enc": ename, "rows": rows, "k": min(w, 5), "select": gen_select(rows, w), "ascii": ename == "ACGTEncoding" and rng.random() < 0.4})
        elif kind < 0.6:
            k = rng.randint(1, w)
            ctx.run_case(case_minimizers, {"fn": "get_minimizers", "enc": ename, "rows": rows, "k": k, "w": w, "select": gen_select(rows, w)})
        elif kind < 0.8:
            pr = [x for x in rows if len(x) >= w]
            pat = rng.choice(pr)[:w] if pr and rng.random() < 0.7 else "".join(rng.choice(alphabet) for _ in range(w))
            if rng.random() < 0.5 and len(alphabet) > 1:
                # near misses: rows that contain the pattern with exactly one letter changed (at any position, also far from the window's start)
                rows = list(rows)
                for _ in range(rng.randint(1, 3)):
                    q = rng.randrange(w)
                    miss = pat[:q] + rng.choice([a for a in alphabet if a != pat[q]]) + pat[q + 1:]
                    rows.append("".join(rng.choice(alphabet) for _ in range(rng.randint(0, 3))) + rng.choice([miss, pat]) + "".join(rng.choice(alphabet) for _ in range(rng.randint(0, 3))))
            use = rng.choice([ename, "ascii"])
            ctx.run_case(case_match, {"fn": "match_string", "enc": use, "rows": rows, "pattern": pat, "select": gen_select(rows, w)})
        elif kind < 0.84:
            # the same object, edited in place between two calls
            k2 = min(w, 6)
            use = rng.choice([ename, "ascii"]) if set(alphabet) <= set("ACGT") or ename == "ACGTEncoding" else ename
            al2 = "ACGT" if use == "ascii" else alphabet
            rows2 = gen_rows(rng, al2, k2 + 2)
            if any(rows2) and len(al2) ** (k2) < 2 ** 62:
                pr = [x for x in rows2 if len(x) >= k2]
                fns2 = ["get_kmers", "match_string"] + (["count_kmers"] if len(al2) ** k2 <= 5000 else []) + (["get_minimizers"] if use != "ascii" else [])     # minimizers ask for alphabet-encoded input
                ctx.run_case(case_edit_between_calls, {"fn": "edit-between-calls", "fn2": rng.choice(fns2),
                                                       "enc": use, "rows": rows2, "k": k2, "pattern": (rng.choice(pr)[:k2] if pr else al2[0] * k2), "seed": rng.randrange(2 ** 30)})
        elif kind < 0.93:
            w2 = min(w, 8)
            al = "ACGT"
            rows2 = gen_rows(rng, al, w2)
            mat = [[rng.choice([0.0, 0.1, 0.25, 0.5, 1.0]) for _ in range(w2)] for _ in al]
            mcase = {"fn": "get_motif_scores", "enc": rng.choice(["ascii", "ACGTEncoding", "ACTGEncoding", "ACGTnEncoding"]), "rows": rows2, "matrix": mat, "alphabet": al, "select": gen_select(rows2, w2)}
            if rng.random() < 0.3:
                mcase["background"] = dict(zip(al, rng.choice([[0.1, 0.2, 0.3, 0.4], [0.4, 0.1, 0.1, 0.4], [0.25, 0.25, 0.3, 0.2]])))
                mcase["background_order"] = rng.sample(list(al), len(al))
            ctx.run_case(case_motif, mcase)
        else:
            kmers = ["".join(rng.choice(alphabet) for _ in range(w)) for _ in range(rng.randint(1, 4))]
            ctx.run_case(case_kmer_encoding, {"fn": "KmerEncoding", "enc": ename, "k": w, "kmers": kmers})
        if i < 3:
            ctx.sample({"enc": ename, "rows": rows, "w": w})
    def case_big_count(c):
        r = random.Random(c["seed"])
        nrows, L, k = c["nrows"], c["len"], c["k"]
        rows = ["".join(r.choices("ACGT", k=L)) for _ in range(nrows)]
        seqs = bnp.as_encoded_array(rows, encs["ACGTEncoding"])
        res = count_kmers(seqs, k)
        exp = Counter(w for x in rows for w in windows(x, k))
        got = {l: n for l, n in zip(res.alphabet, np.asarray(res.counts).ravel().tolist()) if n}
        ctx.check("count_kmers", got == dict(exp), "count_kmers/counts:more-than-1e6-windows", "count_kmers over %d windows: total %d, expected %d" % (sum(exp.values()), sum(got.values()), sum(exp.values())),
                  {"nrows": nrows, "len": L, "k": k, "seed": c["seed"], "got_total": sum(got.values()), "expected_total": sum(exp.values())}, ("big", c["seed"]))
    def case_big_windows(c):
        """many letters in one call (block-wise implementations): every window function against a vectorised per-row reference"""
        r = random.Random(c["seed"])
        w = c["w"]
        rows = ["".join(r.choices("ACGT", k=r.choice([0, 1, w - 1, w, w + 1, 40, 97, 150]))) for _ in range(c["nrows"])]
        seqs = bnp.as_encoded_array(rows, encs["ACGTEncoding"]) if c["enc"] != "ascii" else bnp.as_encoded_array(rows)
        mat = [[r.choice([0.1, 0.25, 0.5, 1.0]) for _ in range(w)] for _ in "ACGT"]
        logm = np.log(np.array(mat, dtype=float))
        res = bnp.get_motif_scores(seqs, PWM(logm, "ACGT"))
        got = res.tolist()
        idx = {ch: i for i, ch in enumerate("ACGT")}
        bad = None
        for ri, (row, g) in enumerate(zip(rows, got)):
            codes = np.array([idx[ch] for ch in row], dtype=int)
            nwin = max(0, len(row) - w + 1)
            e = np.zeros(nwin)
            for j in range(w):
                e += logm[codes[j:j + nwin], j] if nwin else 0
            if len(g) != nwin or (nwin and not np.allclose(np.asarray(g, dtype=float), e, rtol=1e-9, atol=1e-9)):
                pos = int(np.flatnonzero(~np.isclose(np.asarray(g, dtype=float), e, rtol=1e-9, atol=1e-9))[0]) if len(g) == nwin else -1
                bad = (ri, pos, sum(map(len, rows[:ri])) + max(pos, 0))
                break
        total = sum(map(len, rows))
        ctx.check("get_motif_scores", bad is None and len(got) == len(rows), "get_motif_scores/values:more-than-65536-letters", "motif scores over %d letters differ from per-window sums at row %r" % (total, bad),
                  {"seed": c["seed"], "w": w, "nrows": c["nrows"], "letters": total, "first_bad(row,window,flat_offset)": bad}, ("bigw", c["seed"]))
        pat = rows[max(range(len(rows)), key=lambda i: len(rows[i]))][:w]
        m = bnp.match_string(seqs, pat).tolist()
        bad = next((ri for ri, (row, g) in enumerate(zip(rows, m)) if [bool(x) for x in g] != [row[i:i + w] == pat for i in range(max(0, len(row) - w + 1))]), None)
        ctx.check("match_string", bad is None, "match_string/positions:more-than-65536-letters", "match_string over %d letters differs at row %r" % (total, bad), {"seed": c["seed"], "w": w, "row": bad}, ("bigm", c["seed"]))
    for j in range(ctx.pick(1, 6)):
        ctx.run_case(case_big_windows, {"seed": ctx.seed * 131 + ctx.shard * 7 + j, "w": rng.choice([2, 5, 8, 12]), "nrows": 3000 + 137 * ctx.shard, "enc": rng.choice(["ascii", "ACGTEncoding"])})

    if ctx.shard < ctx.pick(1, 6):
        ctx.run_case(case_big_count, {"seed": ctx.seed * 31 + ctx.shard, "nrows": 11 + ctx.shard, "len": 100003, "k": 3})
    ctx.floor("judged:get_kmers:count", ctx.pick(50, 2000))
    ctx.floor("judged:get_minimizers", ctx.pick(50, 2000))
    ctx.floor("judged:match_string", ctx.pick(50, 2000))
    ctx.floor("judged:get_motif_scores", ctx.pick(30, 1000))
    ctx.floor("m6_bounds_checked", ctx.pick(100, 3000))


def replay(ctx, w):
    pass
