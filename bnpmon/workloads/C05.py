"""C05 — lazy and eager reading are observationally equivalent.

Lock-step differential: the same program of public operations runs on bnp.open(p, lazy=True) and lazy=False tables of the same
file; after every step length, every field, the row conversion and the bytes a writer produces must be equal, or both sides
must fail.  M5: on the lazy side the three stores (buffer, replaced values, parsed-value cache) stay aligned with len(table).
"""
import dataclasses
import random

import numpy as np

from bnpmon.models.formats import FORMATS, make_file
from bnpmon import tables

RULE = ("canonically spelled LF files of BED6, narrowPeak, bedGraph, FASTQ, two-line FASTA, VCF (typed INFO), SAM (+ repository BAM files for read-only operations), read whole or in chunks; "
        "programs of <=5 (8) operations from {len, get field (random order), t[slice], t[mask], t[int list], t[i], np.concatenate([t,u]) with u an independently derived table, "
        "bnp.replace(t, f=array of the column's own type), tolist, write}; the interleaving 'access a field, index, replace another field, concatenate, write' is boosted; "
        "one evaluation = one step compared between the two modes; distinct = (file bytes, read mode, program prefix); non-trivial = table has >= 2 rows")
ASSUMPTIONS = ["the eagerly parsed table is the reference for the lazy one (and vice versa: any difference is a violation)",
               "source files are canonical and LF-terminated: otherwise byte equality of writes would contradict C04 (lazy passes text through, eager re-renders)"]
EXHAUSTIVE_CORE = None

C05_FORMATS = ["bed6", "narrowpeak", "bdg", "fastq", "fasta2", "vcf", "sam", "bed3", "csv4", "ssv4", "bed12"]
INT_FIELDS = {"bed6": ["start", "stop", "score"], "narrowpeak": ["start", "stop", "summit"], "bdg": ["start", "stop"], "vcf": ["position"], "sam": ["position", "mapq", "flag"], "bed3": ["start", "stop"], "fastq": [], "fasta2": [], "csv4": ["start", "stop", "score"], "ssv4": ["start", "stop", "score"], "bed12": ["start", "score", "thick_start"]}
STR_FIELDS = {"bed6": ["name", "chromosome"], "narrowpeak": ["name"], "bdg": ["chromosome"], "vcf": ["id"], "sam": ["name", "cigar"], "bed3": ["chromosome"], "fastq": ["name", "sequence"], "fasta2": ["name", "sequence"], "csv4": ["chromosome"], "ssv4": ["chromosome"], "bed12": ["name", "chromosome"]}


def preload():
    import bionumpy  # noqa
    tables.get_buffer_type("Bed6Buffer")


def run(ctx):
    import bionumpy as bnp
    from bionumpy.bnpdataclass.lazybnpdataclass import LazyBNPDataClass
    from bnpmon.ctx import originates_in_library, exc_site
    rng = ctx.rng
    maxops = ctx.pick(5, 8)

    def fields_of(fmt):
        return list(fmt.fields)

    def observe(t, fmt):
        return tables.rows_of(t, fields_of(fmt))

    def both(fn_l, fn_e):
        """run on both sides -> ('ok', l, e) | ('raised-both', ..) | ('raised-one', side, exc)"""
        rl = re_ = None
        el = ee = None
        try:
            rl = fn_l()
        except Exception as e:
            if not originates_in_library(e):
                raise
            el = e
        try:
            re_ = fn_e()
        except Exception as e:
            if not originates_in_library(e):
                raise
            ee = e
        if el is None and ee is None:
            return ("ok", rl, re_)
        if el is not None and ee is not None:
            return ("raised-both", el, ee)
        return ("raised-one", "lazy" if el is not None else "eager", el or ee)

    def m5(L, wit, opname):
        if not isinstance(L, LazyBNPDataClass):
            return
        ctx.count("m5_alignment_checks")
        n = len(L)
        for store in ("_set_values", "_computed_values"):
            for k, v in getattr(L, store).items():
                try:
                    lv = len(v)
                except TypeError:
                    continue
                if lv != n:
                    ctx.violation("alignment/%s-length-differs-from-table:%s" % (store, opname), "lazy table has %d rows but %s[%r] has %d values after %s" % (n, store, k, lv, opname), wit)

    def program(case):
        r = random.Random(case["seed"])
        fname = case["fmt"]
        fmt = FORMATS[fname]
        n = r.choice([1, 2, 3, 5, 8, 13])
        fc = make_file(fname, r, n, r.choice(["tiny", "normal"]), {"noncanon": False, "eol": "\n", "final_newline": True, "score_mode": "int", "tags": True})
        path = tables.write_case_file(ctx, fc)
        bt = tables.get_buffer_type(fmt.buffer)
        if case["chunked"]:
            k = max(len(x) for x in fc["raws"]) + r.randint(2, 40)
            Ls = list(bnp.open(path, buffer_type=bt, lazy=True).read_chunks(min_chunk_size=k))
            Es = list(bnp.open(path, buffer_type=bt, lazy=False).read_chunks(min_chunk_size=k))
            if [len(x) for x in Ls] != [len(x) for x in Es]:
                ctx.check("chunking", False, "%s/chunk-sizes-differ" % fname, "lazy and eager chunked reads give different chunk sizes", {"seed": case["seed"]}, None)
                return
            i = r.randrange(len(Ls))
            L, E = Ls[i], Es[i]
            j = r.randrange(len(Ls))
            L0, E0 = Ls[j], Es[j]
        else:
            L = bnp.open(path, buffer_type=bt, lazy=True).read()
            E = bnp.open(path, buffer_type=bt, lazy=False).read()
            L0, E0 = bnp.open(path, buffer_type=bt, lazy=True).read(), bnp.open(path, buffer_type=bt, lazy=False).read()
        history = []
        # blind programs: the rows of an intermediate table are not read by the harness (reading parses and caches every field of the lazy
        # table, which changes what the following steps exercise); fields, entries, tolist and written bytes are still compared, and the
        # rows of the last table are compared at the end
        blind = r.random() < 0.4
        unread = False
        wit0 = {"format": fname, "chunked": case["chunked"], "seed": case["seed"], "blind": blind, "source": fc["data"].decode("latin1")[:800]}
        script = None
        if r.random() < 0.3:
            script = ["field", "index", "replace", "concat", "write"]      # the interleaving named by the property
        elif r.random() < 0.2:
            # use after write: a selection whose fields were read is written (writing may compact its buffer), then modified and read / written again
            script = ["index", "allfields", "write", "replace", "allfields", "write"]
        elif r.random() < 0.12:
            # everything read once, a field replaced (the lazy table forgets what it had parsed), then a filter that matches nothing, then everything read again
            script = ["allfields", "replace", "emptymask", "allfields", "write"]
        replace_sequence_next = False
        if fname in ("fastq", "fasta2") and r.random() < 0.25:
            # reads replaced by the same reads from another source (DNA-encoded, a row selection nobody has looked at), and written at once
            script, blind, replace_sequence_next = ["replace", "write"], True, True
        for step in range(r.randint(1, maxops) if script is None else len(script)):
            nrows = len(E)
            op = script[step] if script else r.choice(["len", "field", "field", "slice", "mask", "fancy", "index", "concat", "replace", "tolist", "write", "write"])
            force_empty = op == "emptymask"
            if force_empty:
                op = "mask"
            if op == "index":
                op = r.choice(["slice", "mask", "fancy"]) if script else "int"
            wit = dict(wit0, program=history + [op])
            nt = (fc["data"], case["chunked"], repr(history), op) if nrows >= 2 else None
            key = "%s.%s" % ("table" if op == "int" else (fname if fname in ("vcf", "sam", "fastq", "fasta2") else "delimited"), op)

            def differ(what, lv, ev):
                ctx.check(key, False, "%s/lazy!=eager:%s" % (key, what), "%s: lazy gave %r, eager gave %r" % (what, lv if not isinstance(lv, list) else lv[:4], ev if not isinstance(ev, list) else ev[:4]),
                          dict(wit, lazy=str(lv)[:600], eager=str(ev)[:600]), nt)

            def one_sided(side, exc):
                et, site = exc_site(exc)
                import traceback as _tb
                chain = exc.__cause__ or exc
                ctx.check(key, False, "%s/fails-in-%s-mode-only:%s@%s" % (key, side, et, site), "%s raised %s in %s mode only: %s" % (op, et, side, str(exc)[:120]),
                          dict(wit, error=str(exc)[:300], traceback="".join(_tb.format_exception(type(chain), chain, chain.__traceback__))[-1800:]), nt)

            if op == "allfields":
                res = both(lambda: observe(L, fmt), lambda: observe(E, fmt))
                history.append(["allfields"])
                if res[0] == "raised-one":
                    one_sided(res[1], res[2])
                    return
                if res[0] == "ok" and not tables.values_equal([list(x) for x in res[1]], [list(x) for x in res[2]]):
                    differ("rows", res[1], res[2])
                    return
                ctx.judged(key, nt)
                unread = False
                continue
            if op == "len":
                res = both(lambda: len(L), lambda: len(E))
                if res[0] == "ok" and res[1] != res[2]:
                    differ("len", res[1], res[2])
                elif res[0] == "raised-one":
                    one_sided(res[1], res[2])
                else:
                    ctx.judged(key, nt)
                continue
            if op == "field":
                f = r.choice(fields_of(fmt))
                res = both(lambda: tables.column(L, f), lambda: tables.column(E, f))
                history.append(["field", f])
                if res[0] == "raised-one":
                    one_sided(res[1], res[2])
                    return
                if res[0] == "ok" and not tables.values_equal(res[1], res[2]):
                    differ("field " + f, res[1], res[2])
                    return
                ctx.judged(key, nt)
                m5(L, wit, op)
                continue
            if op == "tolist":
                def tl(t):
                    return [tuple(tables._hashable(tables.norm_entry_value(getattr(e, f))) for f in fields_of(fmt)) for e in t.tolist()]
                res = both(lambda: tl(L), lambda: tl(E))
                if res[0] == "raised-one":
                    one_sided(res[1], res[2])
                    return
                if res[0] == "ok" and not tables.values_equal(list(map(list, res[1])), list(map(list, res[2]))):
                    differ("tolist", res[1], res[2])
                    return
                ctx.judged(key, nt)
                continue
            if op == "int":
                if nrows == 0:
                    continue
                i = r.randint(-nrows, nrows - 1)
                i = r.choice([i, i, np.int64(i), np.int32(i), np.intp(i)])       # the row number as a Python int or as a NumPy integer (what argmax, a loop over arange give)
                def ent(t):
                    e = t[i]
                    return tuple(tables._hashable(tables.norm_entry_value(getattr(e, f))) for f in fields_of(fmt))
                res = both(lambda: ent(L), lambda: ent(E))
                if res[0] == "raised-one":
                    one_sided(res[1], res[2])
                    return
                if res[0] == "ok" and not tables.values_equal(list(res[1]), list(res[2])):
                    differ("t[%d]" % i, res[1], res[2])
                    return
                ctx.judged(key, nt)
                continue
            if op == "write":
                # a table read with one delimiter may be written with the other (csv <-> semicolon separated): the writer's layout counts, in both modes
                other_layout = fname in ("csv4", "ssv4") and r.random() < 0.35
                wbt = tables.get_buffer_type(FORMATS["ssv4" if fname == "csv4" else "csv4"].buffer) if other_layout else bt
                def wr(t, tag):
                    p = ctx.path("c05" + tag + fmt.suffix)
                    with bnp.open(p, "w", buffer_type=wbt) as f:
                        f.write(t)
                    return open(p, "rb").read().decode("latin1")
                ints_before = {f_: np.asarray(getattr(E, f_)).tolist() for f_ in INT_FIELDS[fname]} if nrows else {}
                res = both(lambda: wr(L, "l"), lambda: wr(E, "e"))
                history.append(["write"] if not other_layout else ["write", "with-the-other-delimiter"])
                if nrows:
                    # writing (also a write that is refused) leaves the table that was handed to the writer as it was
                    ints_after = {f_: np.asarray(getattr(E, f_)).tolist() for f_ in INT_FIELDS[fname]}
                    if ints_after != ints_before:
                        badf_ = [f_ for f_ in ints_before if ints_before[f_] != ints_after[f_]]
                        ctx.check(key, False, "%s/table-changed-by-a-%s-write:eager" % (key, "refused" if res[0] == "raised-one" and res[1] == "eager" else "completed"), "column %s of the eagerly read table was %r before the write and is %r after it" % (badf_[0], ints_before[badf_[0]][:4], ints_after[badf_[0]][:4]),
                                  dict(wit0, program=list(history), field=badf_[0]), None)
                        return
                if res[0] == "raised-one":
                    one_sided(res[1], res[2])
                    return
                if res[0] == "ok" and res[1] != res[2]:
                    lz, eg = res[1], res[2]
                    header = fc["header"]
                    kind = "written bytes"
                    if header and lz.startswith(header) and not eg.startswith(header) and lz[len(header):] == eg:
                        kind = "written bytes:header-missing-in-eager-mode-after-indexing"
                    elif header and lz.startswith(header) and not eg.startswith(header):
                        default_vcf = "##fileformat=VCFv4.1\n" + "\t".join("#CHROM POS ID REF ALT QUAL FILTER INFO FORMAT".split()) + "\n"
                        if eg.startswith(default_vcf) and lz[len(header):] == eg[len(default_vcf):]:
                            kind = "written bytes:header-missing-in-eager-mode-after-indexing"      # (the VCF writer then emits its default header)
                        else:
                            kind = "written bytes:header-and-records"
                    else:
                        # only float fields re-rendered from an inexactly parsed double (C18's known parse inexactness)?
                        # ... and the eager text must denote exactly the double the eager table holds (the writer prints what was parsed):
                        # a writer that prints another number is not that finding
                        ll, el2 = lz.split("\n"), eg.split("\n")
                        try:
                            held = set()
                            for fld in fields_of(fmt):
                                for v in tables.column(E, fld):
                                    if isinstance(v, float):
                                        held.add(v)
                        except Exception:
                            held = None
                        if len(ll) == len(el2):
                            only_float = True
                            for a, b in zip(ll, el2):
                                fa, fb = a.split("\t"), b.split("\t")
                                if len(fa) != len(fb):
                                    only_float = False
                                    break
                                for x, y in zip(fa, fb):
                                    if x != y:
                                        try:
                                            if not tables.values_equal(float(x), float(y)):
                                                only_float = False
                                            elif held is not None and float(y) not in held:
                                                only_float = False
                                        except ValueError:
                                            only_float = False
                            if only_float:
                                kind = "written bytes:float-re-rendered-after-inexact-parse(<=4ulp)"
                    differ(kind, lz[-300:], eg[-300:])
                    if kind.endswith("header-missing-in-eager-mode-after-indexing") or kind.endswith("(<=4ulp)"):
                        continue        # a difference confined to the header / to re-rendered floats does not end the program: what follows a write is judged too
                    return
                ctx.judged(key, nt)
                m5(L, wit, op)
                continue
            # table-valued operations
            if op == "slice":
                sl = slice(r.choice([None, r.randint(-nrows - 1, nrows + 1)]), r.choice([None, r.randint(-nrows - 1, nrows + 1)]), r.choice([None, 1, 2, -1]))
                fl, fe = (lambda: L[sl]), (lambda: E[sl])
                history.append(["slice", [sl.start, sl.stop, sl.step]])
            elif op == "mask":
                mk = np.array([r.random() < 0.6 for _ in range(nrows)], dtype=bool)
                if r.random() < 0.12 or force_empty:
                    mk[:] = False           # a filter that matches nothing: every later step works on a table without rows
                if r.random() < 0.3 and nrows:
                    mk = mk.tolist()        # a mask given as a Python list of bools (the form the docstrings use)
                fl, fe = (lambda: L[mk]), (lambda: E[mk])
                history.append(["mask", mk if isinstance(mk, list) else mk.tolist(), "list" if isinstance(mk, list) else "array"])
            elif op == "fancy":
                idx = np.array([r.randint(-nrows, nrows - 1) for _ in range(r.randint(0, 5))] if nrows else [], dtype=int)
                if r.random() < 0.3 and len(idx):
                    idx = idx.tolist()      # row numbers as a Python list
                fl, fe = (lambda: L[idx]), (lambda: E[idx])
                history.append(["fancy", idx if isinstance(idx, list) else idx.tolist(), "list" if isinstance(idx, list) else "array"])
            elif op == "concat":
                n0 = len(E0)
                idx = np.array([r.randint(0, n0 - 1) for _ in range(r.randint(0, 3))] if n0 else [], dtype=int)
                variant = r.choice(["plain", "touched", "replaced"])
                ul, ue = L0[idx], E0[idx]
                if variant == "touched":
                    f = r.choice(fields_of(fmt))
                    try:
                        getattr(ul, f)
                    except Exception:
                        pass
                elif variant == "replaced" and INT_FIELDS[fname] and len(idx):
                    f = r.choice(INT_FIELDS[fname])
                    newv = np.asarray(getattr(ue, f)) + 1000
                    ul, ue = bnp.replace(ul, **{f: newv}), bnp.replace(ue, **{f: newv.copy()})
                first = r.random() < 0.5
                fl = (lambda: np.concatenate([L, ul] if first else [ul, L]))
                fe = (lambda: np.concatenate([E, ue] if first else [ue, E]))
                history.append(["concat", variant, idx.tolist(), "t-first" if first else "u-first"])
            elif op == "replace":
                cands = [(f, "int") for f in INT_FIELDS[fname]] + [(f, "str") for f in STR_FIELDS[fname]]
                if not cands or nrows == 0:
                    continue
                f, kind = r.choice(cands)
                if replace_sequence_next:
                    f, kind = "sequence", "str"
                perm = np.array(r.sample(range(nrows), nrows), dtype=int)
                col = getattr(E, f)
                if kind == "int":
                    newv = np.asarray(col)[perm] + r.choice([0, 1, 100])
                    newl, newe = newv, newv.copy()
                else:
                    newl, newe = col[perm], col[perm]        # the column's own array type, rows permuted
                    if f == "sequence" and (replace_sequence_next or r.random() < 0.6):
                        texts_ = [str(x) for x in col.tolist()]
                        if all(set(x.upper()) <= set("ACGT") for x in texts_) and any(texts_):
                            # the reads come DNA-encoded from somewhere else, as a row selection nobody has looked at
                            newl = bnp.as_encoded_array([x.upper() for x in texts_], bnp.DNAEncoding)[perm]
                            newe = bnp.as_encoded_array([x.upper() for x in texts_], bnp.DNAEncoding)[perm]
                            ctx.count("replacements_with_dna_encoded_views")
                fl, fe = (lambda: bnp.replace(L, **{f: newl})), (lambda: bnp.replace(E, **{f: newe}))
                history.append(["replace", f, perm.tolist()])
            else:
                continue
            res = both(fl, fe)
            if res[0] == "raised-one":
                one_sided(res[1], res[2])
                return
            if res[0] == "raised-both":
                ctx.judged(key, nt)
                ctx.count("failed_in_both_modes")
                return
            L2, E2 = res[1], res[2]
            if blind:
                res = both(lambda: len(L2), lambda: len(E2))
                if res[0] == "raised-one":
                    one_sided(res[1] + "(len of the result)", res[2])
                    return
                if res[0] == "ok" and res[1] != res[2]:
                    differ("len after " + op, res[1], res[2])
                    return
                ctx.judged(key, nt)
                ctx.count("blind_steps")
                L, E = L2, E2
                unread = True
                continue
            res = both(lambda: (len(L2), observe(L2, fmt)), lambda: (len(E2), observe(E2, fmt)))
            if res[0] == "raised-one":
                one_sided(res[1] + "(reading the result)", res[2])
                return
            if res[0] == "ok":
                (ll, lrows), (el_, erows) = res[1], res[2]
                if ll != el_:
                    differ("len after " + op, ll, el_)
                    return
                if not tables.values_equal([list(x) for x in lrows], [list(x) for x in erows]):
                    differ("rows after " + op, lrows, erows)
                    return
            ctx.judged(key, nt)
            m5(L2, wit, op)
            L, E = L2, E2
        if blind and unread:
            key = "%s.chain-end" % (fname if fname in ("vcf", "sam", "fastq", "fasta2") else "delimited")
            wit = dict(wit0, program=history)
            res = both(lambda: observe(L, fmt), lambda: observe(E, fmt))
            if res[0] == "raised-one":
                et, site = exc_site(res[2])
                ctx.check(key, False, "%s/fails-in-%s-mode-only:%s@%s" % (key, res[1], et, site), "reading the rows at the end of an unread chain raised %s in %s mode only" % (et, res[1]), dict(wit, error=str(res[2])[:300]), None)
            elif res[0] == "ok":
                ctx.check(key, tables.values_equal([list(x) for x in res[1]], [list(x) for x in res[2]]), "%s/lazy!=eager:rows" % key, "rows at the end of an unread chain differ: lazy %r eager %r" % (res[1][:3], res[2][:3]),
                          dict(wit, lazy=str(res[1])[:600], eager=str(res[2])[:600]), (fc["data"], repr(history)) if len(res[2]) >= 2 else None)

    def bam_case(case):
        import os
        from bnpmon import REPO_ROOT
        p = os.path.join(REPO_ROOT, "example_data", case["file"])
        if not os.path.exists(p):
            return
        L = bnp.open(p, lazy=True).read()
        E = bnp.open(p, lazy=False).read()
        r = random.Random(case["seed"])
        n = len(E)
        ctx.check("bam.len", len(L) == n, "bam/lazy!=eager:len", "BAM length differs", {"file": case["file"]}, (case["file"], "len"))
        for f in r.sample([fl.name for fl in dataclasses.fields(E)], 4):
            a, b = tables.column(L, f), tables.column(E, f)
            ctx.check("bam.field", tables.values_equal(a, b), "bam/lazy!=eager:field", "BAM field %s differs between lazy and eager" % f, {"file": case["file"], "field": f}, (case["file"], f))
        idx = np.array([r.randint(0, n - 1) for _ in range(6)], dtype=int)
        a, b = L[idx], E[idx]
        for f in ("name", "position", "flag"):
            ctx.check("bam.fancy", tables.values_equal(tables.column(a, f), tables.column(b, f)), "bam/lazy!=eager:fancy", "BAM fancy-indexed field %s differs" % f, {"file": case["file"], "idx": idx.tolist()}, (case["file"], f, tuple(idx.tolist())))

    BAM_FIELDS = ["chromosome", "name", "flag", "position", "mapq", "cigar_op", "cigar_length", "sequence", "quality"]

    def bam_program(case):
        """generated BAM files (spec-level encoder R2): the same program of selections, concatenations and field reads on the lazily and on the
        eagerly read table; fields are compared between the modes at observed steps (never before, for blind programs) and names/positions with R2"""
        from bnpmon.models import bam as R2
        from bnpmon.workloads.C16 import gen_record
        r = random.Random(case["seed"])
        n_refs = r.choice([1, 2, 3])
        refs = [("chr%d" % (i + 1), 10 ** 6) for i in range(n_refs)]
        n = r.randint(2, ctx.pick(8, 20))
        equal_size = r.random() < 0.4          # short-read layout: every record has the same number of bytes
        recs = [gen_record(r, n_refs) for _ in range(n)]
        if equal_size:
            base = recs[0]
            recs = [dict(base, name="".join(r.choice("abcxyz0123") for _ in base["name"]), pos=r.randint(0, 10 ** 5), mapq=r.randint(0, 60),
                         seq="".join(r.choice("ACGT") for _ in base["seq"]), qual=None if base["qual"] is None else [r.randint(0, 60) for _ in base["seq"]]) for _ in range(n)]
        data, _ = R2.encode_bam(refs, recs, [])
        path = ctx.path("c05.bam")
        with open(path, "wb") as f:
            f.write(data)
        L = bnp.open(path, lazy=True).read()
        E = bnp.open(path, lazy=False).read()
        state = list(range(n))
        blind = r.random() < 0.4
        history = []
        wit0 = {"format": "bam", "seed": case["seed"], "n": n, "equal_size_records": equal_size, "blind": blind}

        def observe(fields, when):
            for f in fields:
                res = both(lambda: tables.column(L, f), lambda: tables.column(E, f))
                nt = (data, repr(history), f) if len(state) >= 2 else None
                if res[0] == "raised-one":
                    et, site = exc_site(res[2])
                    ctx.check("bam.program", False, "bam/fails-in-%s-mode-only:%s@%s" % (res[1], et, site), "BAM field %s raised %s in %s mode only" % (f, et, res[1]), dict(wit0, program=list(history), error=str(res[2])[:200]), nt)
                    return False
                if res[0] == "raised-both":
                    ctx.observe("bam-field-raised-in-both-modes:%s" % type(res[1]).__name__)
                    return False
                if not ctx.check("bam.program", tables.values_equal(res[1], res[2]), "bam/lazy!=eager:%s%s" % ("field-after-concatenate" if any(h[0] == "concat" for h in history) else "field", ""),
                                 "BAM field %s differs between the modes %s: lazy %r eager %r" % (f, when, str(res[1])[:120], str(res[2])[:120]), dict(wit0, program=list(history), field=f), nt):
                    return False
                if f == "name":
                    want = [recs[i]["name"] for i in state]
                    if not ctx.check("bam.program", list(res[1]) == want, "bam/names-differ-from-the-file", "names %r, the selected records are %r" % (list(res[1])[:6], want[:6]), dict(wit0, program=list(history)), nt):
                        return False
            return True

        for _ in range(r.randint(1, 5)):
            k = r.random()
            m = len(state)
            if k < 0.45 and m:
                kind = r.choice(["slice", "mask", "fancy", "list"])
                if kind == "slice":
                    a = r.randint(0, m - 1); b = r.randint(a + 1, m); st = r.choice([1, 1, 2, -1])
                    idx = slice(a, b, st) if st > 0 else slice(b - 1, a - 1 if a else None, -1)
                    newstate = state[idx]
                elif kind == "mask":
                    mk = [r.random() < 0.6 for _ in range(m)]
                    idx = np.array(mk, dtype=bool)
                    newstate = [x for x, keep in zip(state, mk) if keep]
                else:
                    ii = [r.randrange(m) for _ in range(r.randint(1, 5))]
                    idx = np.array(ii, dtype=int) if kind == "fancy" else ii
                    newstate = [state[i] for i in ii]
                res = both(lambda: L[idx], lambda: E[idx])
                history.append(["index", kind, str(idx)[:60]])
            elif k < 0.5 and m:
                # selections that keep nothing, joined: a table without records
                none_ = np.zeros(m, dtype=bool)
                res = both(lambda: np.concatenate([L[none_], L[:0]]), lambda: np.concatenate([E[none_], E[:0]]))
                newstate = []
                history.append(["concat", "two-empty-selections", []])
            elif k < 0.8 and m:
                # concatenate with a selection of the table as it is now, in either order, or with itself
                ii = sorted(r.sample(range(m), r.randint(1, m))) if r.random() < 0.6 else [r.randrange(m) for _ in range(r.randint(1, 3))]
                sel_first = r.random() < 0.5
                newstate = [state[i] for i in ii] + state if sel_first else state + [state[i] for i in ii]
                arr = np.array(ii, dtype=int)
                res = both(lambda: np.concatenate([L[arr], L] if sel_first else [L, L[arr]]), lambda: np.concatenate([E[arr], E] if sel_first else [E, E[arr]]))
                history.append(["concat", "selection-first" if sel_first else "selection-last", ii])
            else:
                fs = r.sample(BAM_FIELDS, r.randint(1, 2))
                history.append(["field", fs])
                if not blind:
                    if not observe(fs, "after %r" % (history[-2:],)):
                        return
                    continue
                for f in fs:
                    both(lambda: getattr(L, f), lambda: getattr(E, f))       # touched, not looked at
                ctx.count("blind_steps")
                continue
            if res[0] == "raised-one":
                et, site = exc_site(res[2])
                ctx.check("bam.program", False, "bam/fails-in-%s-mode-only:%s@%s" % (res[1], et, site), "BAM step %r raised %s in %s mode only" % (history[-1], et, res[1]), dict(wit0, program=list(history), error=str(res[2])[:200]), None)
                return
            if res[0] == "raised-both":
                ctx.observe("bam-step-raised-in-both-modes:%s" % type(res[1]).__name__)
                return
            L, E = res[1], res[2]
            state = newstate
            if not blind and r.random() < 0.5:
                if not observe(r.sample(BAM_FIELDS, 2), "after %r" % (history[-1],)):
                    return
            elif blind:
                ctx.count("blind_steps")
        ll = both(lambda: len(L), lambda: len(E))
        if ll[0] == "ok":
            ctx.check("bam.program", ll[1] == ll[2] == len(state), "bam/lazy!=eager:len", "lengths %r / %r, %d records selected" % (ll[1], ll[2], len(state)), dict(wit0, program=list(history)), None)
        observe(r.sample(BAM_FIELDS, len(BAM_FIELDS)), "at the end of %r" % (history,))
        ctx.count("bam_programs")

    for i in range(ctx.share(ctx.pick(480, 6000))):
        ctx.run_case(bam_program, {"seed": rng.randrange(2 ** 40)})
    ctx.floor("bam_programs", ctx.pick(10, 100))

    total = ctx.share(ctx.pick(300 * len(C05_FORMATS), 5000 * len(C05_FORMATS)))
    for i in range(total):
        ctx.run_case(program, {"fmt": C05_FORMATS[i % len(C05_FORMATS)], "seed": rng.randrange(2 ** 40), "chunked": rng.random() < 0.35})
    for i, fn in enumerate(["alignments.bam", "test.bam"]):
        if i % ctx.nshards == ctx.shard % 2 and ctx.shard < 4:
            ctx.run_case(bam_case, {"file": fn, "seed": ctx.seed + ctx.shard})
    ctx.sample({"format": "bed6", "program": [["field", "start"], ["mask", [True, False, True]], ["replace", "score", [1, 0]], ["concat", "replaced", [0], "t-first"], ["write"]]})
    ctx.floor("m5_alignment_checks", ctx.pick(300, 5000))
    ctx.floor("judged:delimited.write", ctx.pick(50, 1000))
    ctx.floor("judged:delimited.concat", ctx.pick(50, 1000))
    ctx.floor("blind_steps", ctx.pick(50, 1000))       # the un-decoded / lazy-view variants must actually have run


def replay(ctx, w):
    pass
