"""C07 — encoded arrays behave like NumPy arrays of characters.

Operation-history monitor: random programs of the supported NumPy-style operations are executed on encoded (ragged) arrays
and, in lock step, on the corresponding Python list of strings (R4); after every step the decoded result must equal the
model, its encoding must be the operand's, and every returned array passes the result-bounds sanitizer (M6).
"""
import random

import numpy as np

RULE = ("lists of 0..5 strings of length 0..6 (all-empty rows, single row, equal-length rows for 2-D) over ASCII / DNA / ACGTn / amino-acid encodings; programs of <=4 (8) "
        "operations drawn from {row int/negative/slice(step, negative step)/mask/fancy indexing, column slice/reversal/int/fancy, element access, ==/!= with char, string, array, "
        "item assignment (on a copy; row, element, column, slice), np.concatenate, copy, ravel, tolist/to_string, bnp.ragged_slice}; results feed the next operation so views stack on views; "
        "one evaluation = one step; distinct = (encoding, initial rows, program prefix); non-trivial = operand has >= 2 characters")
ASSUMPTIONS = ["Python list-of-str semantics with NumPy index rules are the reference (R4)", "item assignment is judged by resulting content of a copy only (no claim about aliasing between views)"]
EXHAUSTIVE_CORE = None

ALPH = {"ascii": "ACGTNXYZacgt09_", "DNA": "ACGT", "ACGTn": "ACGTN", "amino": "ACDEFGHIKLMNPQRSTVWY"}


def preload():
    import bionumpy  # noqa
    import bionumpy.util.ragged_slice  # noqa


class Skip(Exception):
    pass


def norm_index(i, n):
    return i + n if i < 0 else i


def run(ctx):
    import bionumpy as bnp
    from bionumpy.encoded_array import EncodedArray, EncodedRaggedArray
    from bionumpy.encodings import alphabet_encoding as ae
    from bnpmon.util import text_rows, bounds_violation
    from bnpmon.ctx import originates_in_library, exc_site
    ENC = {"ascii": bnp.encodings.BaseEncoding, "DNA": ae.ACGTEncoding, "ACGTn": ae.ACGTnEncoding, "amino": ae.AminoAcidEncoding}
    rng = ctx.rng
    maxops = ctx.pick(4, 8)
    # a different but compatible encoding for a comparison operand (same letters, other code table)
    OTHER_ENC = {"DNA": ae.ACGTnEncoding, "ACGTn": ae.ACGTEncoding, "ascii": None, "amino": "ascii"}

    def up(ename, s):
        return s if ename == "ascii" else s.upper()

    # ---- model: kind in {"ragged","flat","matrix","bool","scalarstr"}; value python -------------------------
    def decode(obj, kind):
        if kind == "ragged":
            return text_rows(obj) if len(obj) else []
        if kind == "flat":
            return obj.to_string() if obj.ndim == 1 else str(obj.to_string())
        if kind == "matrix":
            return text_rows(obj) if obj.shape[0] else []
        raise ValueError(kind)

    def gen_op(kind, model, r, ename):
        """returns (opname, params) valid for the model value"""
        alpha = ALPH[ename] if ename == "ascii" else ALPH[ename]
        if kind == "ragged":
            n = len(model)
            lens = [len(s) for s in model]
            ops = ["row_slice", "row_slice", "row_mask", "row_fancy", "col_slice", "col_reverse", "eq_char", "copy", "ravel", "concat", "tolist", "assign_row", "assign_elem", "neq_char",
                   "str_equal_ragged", "str_equal_str", "as_string_array", "view_copy_assign", "view_copy_assign", "concat_assign", "eq_ragged_other_enc", "rows_to_array_assign", "string_array_eq_list", "from_encoded_array", "concat_other_enc"]
            if n:
                ops += ["row_int", "row_int", "elem", "row_int_col_slice"]
            if n == 1:
                # bnp.ragged_slice is judged where its two readings (offsets into the row / into the flattened characters) are the same thing: one row, one slice
                ops += ["ragged_slice", "ragged_slice"]
            if n and min(lens) > 0:
                ops += ["col_int", "assign_col", "col_fancy"]
            op = r.choice(ops)
            if op == "row_int":
                return op, {"i": r.randint(-n, n - 1)}
            if op == "row_slice":
                return op, {"start": r.choice([None, r.randint(-n - 1, n + 1)]), "stop": r.choice([None, r.randint(-n - 1, n + 1)]), "step": r.choice([None, 1, 2, -1, -2])}
            if op == "row_mask":
                return op, {"mask": [r.random() < 0.5 for _ in range(n)], "as_list": r.random() < 0.3}
            if op == "row_fancy":
                return op, {"idx": [r.randint(-n, n - 1) for _ in range(r.randint(0, 4))] if n else [], "as_list": r.random() < 0.3}
            if op == "row_int_col_slice":
                i = r.randint(-n, n - 1)
                return op, {"i": i, "start": r.choice([None, 0, 1, 2, -1, -2]), "stop": r.choice([None, 1, 2, 3, -1]), "step": r.choice([None, 1, -1, -1, 2])}
            if op == "col_slice":
                return op, {"start": r.choice([None, 0, 1, 2, -1, -2, 5]), "stop": r.choice([None, 0, 1, 2, 3, -1, -3]), "step": r.choice([None, None, 1, 2, -1, -1, -2])}
            if op == "col_reverse":
                return op, {}
            if op == "col_int":
                m = min(lens)
                return op, {"j": r.randint(-m, m - 1)}
            if op == "col_fancy":
                m = min(lens)
                return op, {"idx": [r.randint(0, m - 1) for _ in range(r.randint(1, 3))]}
            if op == "elem":
                rows = [i for i in range(n) if lens[i] > 0]
                if not rows:
                    raise Skip()
                i = r.choice(rows)
                return op, {"i": i, "j": r.randint(-lens[i], lens[i] - 1)}
            if op in ("eq_char", "neq_char"):
                # the character as a Python string, or as an encoded character (same encoding) on either side of the operator
                return op, {"c": r.choice(alpha), "form": r.choice(["str", "str", "encoded-right", "encoded-left", "encoded-left"])}
            if op == "concat":
                other = ["".join(r.choice(alpha) for _ in range(r.randint(0, 4))) for _ in range(r.randint(0, 3))]
                return op, {"other": other, "empty_list": r.random() < 0.5, "other_first": r.random() < 0.4}
            if op == "assign_row":
                if not n:
                    raise Skip()
                i = r.randint(-n, n - 1)
                return op, {"i": i, "value": "".join(r.choice(alpha) for _ in range(lens[norm_index(i, n)])), "as": r.choice(["str", "str", "same-encoding", "ascii-array"])}
            if op == "concat_other_enc":
                # the rows appended are held in another encoding (plain text next to an alphabet, an alphabet next to plain text): converted, or refused
                a_ = "ACGT" if ename == "ascii" else alpha
                return op, {"other": ["".join(r.choice(a_) for _ in range(r.randint(0, 4))) for _ in range(r.randint(1, 3))], "lower": r.random() < 0.3}
            if op == "concat_assign":
                # concatenate (one side possibly empty), assign INTO the result, then look at the operand: a concatenation is a new array
                other = ["".join(r.choice(alpha) for _ in range(r.randint(0, 4))) for _ in range(r.choice([0, 0, 1, 2]))]
                if r.random() < 0.3:
                    other = [""] * r.randint(1, 2)
                return op, {"other": other, "first": r.random() < 0.5, "c": r.choice(alpha)}
            if op == "rows_to_array_assign":
                # a new ragged array built from a Python list of rows of this one (often a single row), then overwritten: the source keeps its text
                if not n:
                    raise Skip()
                return op, {"rows": [r.randint(-n, n - 1) for _ in range(r.choice([1, 1, 1, 2, 3]))], "c": r.choice(alpha)}
            if op == "eq_ragged_other_enc":
                if not n:
                    raise Skip()
                other = [(s_ if r.random() < 0.7 else "".join(r.choice(alpha) for _ in range(len(s_)))) for s_ in model]
                return op, {"other": other}
            if op == "assign_elem":
                rows = [i for i in range(n) if lens[i] > 0]
                if not rows:
                    raise Skip()
                i = r.choice(rows)
                return op, {"i": i, "j": r.randint(0, lens[i] - 1), "c": r.choice(alpha)}
            if op == "assign_col":
                return op, {"j": r.randint(0, min(lens) - 1), "c": r.choice(alpha)}
            if op == "view_copy_assign":
                if not n:
                    raise Skip()
                sel = r.choice([("rev",), ("fancy", [r.randint(0, n - 1) for _ in range(r.randint(1, 4))]), ("slice", r.randint(0, n - 1))])
                return op, {"sel": sel, "c": r.choice(alpha)}
            if op == "str_equal_ragged":
                if not n:
                    raise Skip()
                other = [(s_ if r.random() < 0.6 else "".join(r.choice(alpha) for _ in range(r.choice([0, len(s_), len(s_) + 1])))) for s_ in model]
                return op, {"other": other}
            if op == "str_equal_str":
                if not n:
                    raise Skip()
                return op, {"s": r.choice(model) if r.random() < 0.7 else "".join(r.choice(alpha) for _ in range(r.randint(0, 3)))}
            if op == "string_array_eq_list":
                # the rows as fixed-width strings compared with a list of Python strings: equal rows, rows with one more letter (longer than the longest row), shorter rows
                if not n or not any(model) or ename != "ascii" and False:
                    raise Skip()
                other = [(s_ if r.random() < 0.5 else (s_ + r.choice(alpha) if r.random() < 0.6 else s_[:-1])) for s_ in model]
                return op, {"other": other, "as": r.choice(["list", "tuple", "array"]), "neq": r.random() < 0.3}
            if op == "ragged_slice":
                if not n:
                    raise Skip()
                st = [r.randint(0, l) for l in lens]
                en = [r.randint(s, l) for s, l in zip(st, lens)] if r.random() < 0.6 else None       # ends left out: to the end
                return op, {"starts": st, "ends": en}
            return op, {}
        if kind == "flat":
            n = len(model)
            ops = ["slice", "slice", "mask", "fancy", "reverse", "eq_char", "eq_str", "eq_arr", "copy", "ravel", "concat", "to_string", "assign_slice", "assign_scalar", "concat_assign", "assign_encoded", "eq_arr_other_order", "concat_other_enc"]
            if n:
                ops += ["int", "int"]
            op = r.choice(ops)
            if op == "int":
                return op, {"i": r.randint(-n, n - 1)}
            if op == "slice":
                return op, {"start": r.choice([None, r.randint(-n - 1, n + 1)]), "stop": r.choice([None, r.randint(-n - 1, n + 1)]), "step": r.choice([None, 1, 2, -1, -3])}
            if op == "mask":
                return op, {"mask": [r.random() < 0.5 for _ in range(n)]}
            if op == "fancy":
                return op, {"idx": [r.randint(-n, n - 1) for _ in range(r.randint(0, 5))] if n else []}
            if op == "eq_char":
                return op, {"c": r.choice(alpha)}
            if op in ("eq_str", "eq_arr"):
                return op, {"s": "".join(r.choice(model + alpha) if model else r.choice(alpha) for _ in range(n))}
            if op == "eq_arr_other_order":
                # the operand is encoded with an alphabet that orders the same letters differently: the letters are compared, or the comparison is refused
                if not n or any(ch.upper() not in "ACGT" for ch in model):
                    raise Skip()
                return op, {"s": "".join(ch if r.random() < 0.6 else r.choice("ACGT") for ch in model.upper()), "neq": r.random() < 0.3}
            if op == "concat":
                return op, {"other": "".join(r.choice(alpha) for _ in range(r.randint(0, 4)))}
            if op == "concat_other_enc":
                return op, {"other": "".join(r.choice("ACGT" if ename == "ascii" else alpha) for _ in range(r.randint(1, 4))), "lower": r.random() < 0.3}
            if op == "assign_slice":
                if n == 0:
                    raise Skip()
                a = r.randint(0, n - 1)
                b = r.randint(a, n)
                return op, {"a": a, "b": b, "value": "".join(r.choice(alpha) for _ in range(b - a))}
            if op == "assign_scalar":
                if n == 0:
                    raise Skip()
                return op, {"i": r.randint(-n, n - 1), "c": r.choice(alpha)}
            if op == "concat_assign":
                return op, {"other": "".join(r.choice(alpha) for _ in range(r.choice([0, 0, 1, 3]))), "first": r.random() < 0.5, "c": r.choice(alpha)}
            if op == "assign_encoded":
                if n == 0:
                    raise Skip()
                a = r.randint(0, n - 1)
                b = r.randint(a + 1, n)
                return op, {"a": a, "b": b, "value": "".join(r.choice(alpha) for _ in range(b - a)), "as": r.choice(["same-encoding", "ascii-array"])}
            return op, {}
        if kind == "matrix":
            n = len(model)
            w = len(model[0]) if n else 0
            ops = ["row_slice", "row_mask", "copy", "ravel", "eq_char", "col_reverse"]
            if n:
                ops += ["row_int", "row_fancy"]
            if n and w:
                ops += ["col_int", "col_slice", "elem", "assign_elem"]
            op = r.choice(ops)
            if op == "row_int":
                return op, {"i": r.randint(-n, n - 1)}
            if op == "row_slice":
                return op, {"start": r.choice([None, r.randint(-n, n)]), "stop": r.choice([None, r.randint(-n, n)]), "step": r.choice([None, 1, -1, 2])}
            if op == "row_mask":
                return op, {"mask": [r.random() < 0.5 for _ in range(n)]}
            if op == "row_fancy":
                return op, {"idx": [r.randint(-n, n - 1) for _ in range(r.randint(0, 4))]}
            if op == "col_int":
                return op, {"j": r.randint(-w, w - 1)}
            if op == "col_slice":
                return op, {"start": r.choice([None, 0, 1, -1]), "stop": r.choice([None, 1, 2, -1]), "step": r.choice([None, 1, -1])}
            if op == "elem":
                return op, {"i": r.randint(-n, n - 1), "j": r.randint(-w, w - 1)}
            if op == "assign_elem":
                return op, {"i": r.randint(0, n - 1), "j": r.randint(0, w - 1), "c": r.choice(alpha)}
            if op == "eq_char":
                return op, {"c": r.choice(alpha)}
            return op, {}
        raise Skip()

    def apply_model(kind, model, op, p, ename):
        """-> (new_kind, new_model) ; for comparisons new_kind='bool'"""
        U = lambda s: up(ename, s)
        if kind == "ragged":
            if op == "row_int":
                return "flat", model[p["i"]]
            if op == "row_slice":
                return "ragged", model[slice(p["start"], p["stop"], p["step"])]
            if op == "row_mask":
                return "ragged", [s for s, m in zip(model, p["mask"]) if m]
            if op == "row_fancy":
                return "ragged", [model[i] for i in p["idx"]]
            if op == "row_int_col_slice":
                return "flat", model[p["i"]][slice(p["start"], p["stop"], p["step"])]
            if op == "col_slice":
                return "ragged", [s[slice(p["start"], p["stop"], p["step"])] for s in model]
            if op == "col_reverse":
                return "ragged", [s[::-1] for s in model]
            if op == "col_int":
                return "flat", "".join(s[p["j"]] for s in model)
            if op == "col_fancy":
                return "matrix", ["".join(s[j] for j in p["idx"]) for s in model]
            if op == "elem":
                return "flat0", model[p["i"]][p["j"]]
            if op == "eq_char":
                return "bool", [[ch == U(p["c"]) for ch in s] for s in model]
            if op == "neq_char":
                return "bool", [[ch != U(p["c"]) for ch in s] for s in model]
            if op == "copy":
                return "ragged", list(model)
            if op == "ravel":
                return "flat", "".join(model)
            if op == "concat":
                return "ragged", ([U(s) for s in p["other"]] + model) if p.get("other_first") else (model + [U(s) for s in p["other"]])
            if op == "concat_other_enc":
                return "ragged", model + [U(s) for s in p["other"]]
            if op == "tolist":
                return "pylist", list(model)
            if op == "assign_row":
                m = list(model)
                m[p["i"]] = U(p["value"])
                return "ragged", m
            if op == "assign_elem":
                m = list(model)
                s = m[p["i"]]
                m[p["i"]] = s[:p["j"]] + U(p["c"]) + s[p["j"] + 1:]
                return "ragged", m
            if op == "assign_col":
                return "ragged", [s[:p["j"]] + U(p["c"]) + s[p["j"] + 1:] for s in model]
            if op == "ragged_slice":
                return "ragged", [s[a:b] for s, a, b in zip(model, p["starts"], p["ends"] if p["ends"] is not None else [None] * len(model))]
            if op == "view_copy_assign":
                sel = p["sel"]
                view = model[::-1] if sel[0] == "rev" else ([model[i] for i in sel[1]] if sel[0] == "fancy" else model[sel[1]:])
                return "pylist", [list(view), [U(p["c"]) * len(x) for x in view], list(model)]
            if op == "concat_assign":
                o = [U(x) for x in p["other"]]
                cat = (model + o) if p["first"] else (o + model)
                flat_len = sum(map(len, cat))
                done = [U(p["c"]) * len(x) for x in cat]
                return "pylist", [done, list(model)]
            if op == "rows_to_array_assign":
                picked = [model[i] for i in p["rows"]]
                return "pylist", [[U(p["c"]) * len(x) for x in picked], list(model)]
            if op == "eq_ragged_other_enc":
                return "bool", [[x == y for x, y in zip(a, U(b))] for a, b in zip(model, p["other"])]
            if op == "str_equal_ragged":
                return "bool", [a == U(b) for a, b in zip(model, p["other"])]
            if op == "str_equal_str":
                return "bool", [a == U(p["s"]) for a in model]
            if op == "as_string_array":
                return "pylist", list(model)
            if op == "from_encoded_array":
                return "pylist", list(model)
            if op == "string_array_eq_list":
                return "bool", [(a == U(b)) != bool(p["neq"]) for a, b in zip(model, p["other"])]
        if kind == "flat":
            if op == "int":
                return "flat0", model[p["i"]]
            if op == "slice":
                return "flat", model[slice(p["start"], p["stop"], p["step"])]
            if op == "mask":
                return "flat", "".join(c for c, m in zip(model, p["mask"]) if m)
            if op == "fancy":
                return "flat", "".join(model[i] for i in p["idx"])
            if op == "reverse":
                return "flat", model[::-1]
            if op == "eq_char":
                return "bool", [c == U(p["c"]) for c in model]
            if op in ("eq_str", "eq_arr"):
                return "bool", [c == d for c, d in zip(model, U(p["s"]))]
            if op == "eq_arr_other_order":
                return "bool", [(c.upper() == d) != bool(p["neq"]) for c, d in zip(model, p["s"])]
            if op == "copy":
                return "flat", model
            if op == "ravel":
                return "flat", model
            if op == "concat":
                return "flat", model + U(p["other"])
            if op == "concat_other_enc":
                return "flat", model + U(p["other"])
            if op == "to_string":
                return "pystr", model
            if op == "assign_slice":
                return "flat", model[:p["a"]] + U(p["value"]) + model[p["b"]:]
            if op == "assign_scalar":
                i = norm_index(p["i"], len(model))
                return "flat", model[:i] + U(p["c"]) + model[i + 1:]
            if op == "concat_assign":
                cat = (model + U(p["other"])) if p["first"] else (U(p["other"]) + model)
                return "pylist", [U(p["c"]) * len(cat), model]
            if op == "assign_encoded":
                return "flat", model[:p["a"]] + U(p["value"]) + model[p["b"]:]
        if kind == "matrix":
            if op == "row_int":
                return "flat", model[p["i"]]
            if op == "row_slice":
                return "matrix", model[slice(p["start"], p["stop"], p["step"])]
            if op == "row_mask":
                return "matrix", [s for s, m in zip(model, p["mask"]) if m]
            if op == "row_fancy":
                return "matrix", [model[i] for i in p["idx"]]
            if op == "col_int":
                return "flat", "".join(s[p["j"]] for s in model)
            if op == "col_slice":
                return "matrix", [s[slice(p["start"], p["stop"], p["step"])] for s in model]
            if op == "col_reverse":
                return "matrix", [s[::-1] for s in model]
            if op == "elem":
                return "flat0", model[p["i"]][p["j"]]
            if op == "assign_elem":
                m = list(model)
                s = m[p["i"]]
                m[p["i"]] = s[:p["j"]] + U(p["c"]) + s[p["j"] + 1:]
                return "matrix", m
            if op == "eq_char":
                return "bool", [[ch == U(p["c"]) for ch in s] for s in model]
            if op == "copy":
                return "matrix", list(model)
            if op == "ravel":
                return "flat", "".join(model)
        raise Skip()

    def concat_other_enc(obj, p, ename):
        texts = p["other"]
        if ename == "ascii":
            other = bnp.as_encoded_array(texts, ae.ACGTEncoding)
        else:
            other = bnp.as_encoded_array([t.lower() for t in texts] if isinstance(texts, list) else texts.lower()) if p["lower"] else bnp.as_encoded_array(texts)
        try:
            res = np.concatenate([obj, other])
        except Exception as e:
            if not originates_in_library(e):
                raise
            ctx.count("refused:concatenation-with-an-operand-in-another-encoding")
            raise Skip()
        ctx.count("joined:concatenation-with-an-operand-in-another-encoding")
        return res

    def apply_real(kind, obj, op, p, ename):
        enc = ENC[ename]
        mk = lambda s: bnp.as_encoded_array(s, enc) if ename != "ascii" else bnp.as_encoded_array(s)
        if op in ("row_int", "elem", "col_int", "int", "row_int_col_slice") and sum(v for v in p.values() if isinstance(v, int) and not isinstance(v, bool)) % 3 == 0:
            # row / column numbers as NumPy integers (what argmax, nonzero, a loop over arange give) instead of Python ints
            p = {k_: (np.int64(v) if isinstance(v, int) and not isinstance(v, bool) else v) for k_, v in p.items()}
            ctx.count("numpy_integer_indices")
        if kind == "ragged":
            if op == "row_int":
                return obj[p["i"]]
            if op == "row_slice":
                return obj[slice(p["start"], p["stop"], p["step"])]
            if op == "row_mask":
                return obj[list(p["mask"]) if (p.get("as_list") and p["mask"]) else np.array(p["mask"], dtype=bool)]
            if op == "row_fancy":
                return obj[list(p["idx"]) if (p.get("as_list") and p["idx"]) else np.array(p["idx"], dtype=int)]
            if op == "row_int_col_slice":
                return obj[p["i"], slice(p["start"], p["stop"], p["step"])]
            if op == "col_slice":
                return obj[:, slice(p["start"], p["stop"], p["step"])]
            if op == "col_reverse":
                return obj[:, ::-1]
            if op == "col_int":
                return obj[:, p["j"]]
            if op == "col_fancy":
                return obj[:, np.array(p["idx"], dtype=int)]
            if op == "elem":
                return obj[p["i"], p["j"]]
            if op in ("eq_char", "neq_char"):
                form = p.get("form", "str")
                c = p["c"] if form == "str" else mk(p["c"])
                if form == "encoded-left":
                    return (c == obj) if op == "eq_char" else (c != obj)
                return (obj == c) if op == "eq_char" else (obj != c)
            if op == "copy":
                return obj.copy()
            if op == "ravel":
                return obj.ravel()
            if op == "concat":
                other = mk(p["other"]) if (p["other"] or p.get("empty_list")) else obj[:0]      # mk([]) : an array built from a list without rows
                return np.concatenate([other, obj] if p.get("other_first") else [obj, other])
            if op == "concat_other_enc":
                return concat_other_enc(obj, p, ename)
            if op == "tolist":
                return obj.tolist()
            if op == "assign_row":
                c = obj.copy()
                how = p.get("as", "str")
                val = p["value"] if (how == "str" and p["value"]) else (bnp.as_encoded_array(p["value"]) if how == "ascii-array" and p["value"] else mk(p["value"]))
                c[p["i"]] = val
                return c
            if op == "concat_assign":
                other = mk(p["other"]) if p["other"] else obj[:0]
                res = np.concatenate([obj, other] if p["first"] else [other, obj])
                res[res != p["c"]] = p["c"]
                return [text_rows(res) if len(res) else [], text_rows(obj) if len(obj) else []]
            if op == "rows_to_array_assign":
                new = bnp.as_encoded_array([obj[i] for i in p["rows"]])
                if new.size:
                    new[new != p["c"]] = p["c"]
                return [text_rows(new) if len(new) else [], text_rows(obj) if len(obj) else []]
            if op == "eq_ragged_other_enc":
                # the other operand comes in a different but compatible encoding and as a lazy row selection (reversed twice)
                oe = OTHER_ENC.get(ename)
                common = "ACGT" if ename in ("DNA", "ACGTn") else ALPH[ename].upper()
                if oe is None or any(ch.upper() not in common for x in p["other"] for ch in x):
                    raise Skip()
                other = (bnp.as_encoded_array(p["other"][::-1], oe) if oe != "ascii" else bnp.as_encoded_array(p["other"][::-1]))[::-1]
                return obj == other
            if op == "assign_elem":
                c = obj.copy()
                c[p["i"], p["j"]] = p["c"]
                return c
            if op == "assign_col":
                c = obj.copy()
                c[:, p["j"]] = p["c"]
                return c
            if op == "ragged_slice":
                if p["ends"] is None:
                    return bnp.ragged_slice(obj, np.array(p["starts"], dtype=int))
                return bnp.ragged_slice(obj, np.array(p["starts"], dtype=int), np.array(p["ends"], dtype=int))
            if op == "view_copy_assign":
                # a selection (view), copied at once (nothing decodes or flattens the view in between), then the copy is overwritten
                sel = p["sel"]
                view = obj[::-1] if sel[0] == "rev" else (obj[np.array(sel[1], dtype=int)] if sel[0] == "fancy" else obj[sel[1]:])
                c = view.copy()
                c[c != p["c"]] = p["c"]
                return [text_rows(view) if len(view) else [], text_rows(c) if len(c) else [], text_rows(obj) if len(obj) else []]
            if op == "str_equal_ragged":
                from bionumpy.io.strops import str_equal
                return str_equal(obj, mk(p["other"]))
            if op == "str_equal_str":
                from bionumpy.io.strops import str_equal
                if p["s"] == "":
                    raise Skip()
                return str_equal(obj, p["s"])
            if op == "as_string_array":
                from bionumpy.string_array import as_string_array
                return [str(x) for x in as_string_array(obj).tolist()]
            if op == "from_encoded_array":
                from bionumpy.encoded_array import from_encoded_array
                out_ = from_encoded_array(obj)
                return [str(x) for x in (out_ if isinstance(out_, list) else [out_])] if len(obj) else []
            if op == "string_array_eq_list":
                from bionumpy.string_array import as_string_array
                sa = as_string_array(obj)
                operand = list(p["other"]) if p["as"] == "list" else (tuple(p["other"]) if p["as"] == "tuple" else np.array(p["other"]))
                return (sa != operand) if p["neq"] else (sa == operand)
        if kind == "flat":
            if op == "int":
                return obj[p["i"]]
            if op == "slice":
                return obj[slice(p["start"], p["stop"], p["step"])]
            if op == "mask":
                return obj[np.array(p["mask"], dtype=bool)]
            if op == "fancy":
                return obj[np.array(p["idx"], dtype=int)]
            if op == "reverse":
                return obj[::-1]
            if op == "eq_char":
                return obj == p["c"]
            if op == "eq_str":
                return obj == p["s"]
            if op == "eq_arr":
                return obj == mk(p["s"])
            if op == "eq_arr_other_order":
                other = bnp.as_encoded_array(p["s"], ae.ACTGEncoding if ename in ("DNA", "ACGTn", "ascii") and not (ename == "ascii" and len(p["s"]) % 2) else ae.ACGTEncoding)
                if ename == "DNA" and other.encoding == ae.ACGTEncoding:
                    raise Skip()
                try:
                    return (obj != other) if p["neq"] else (obj == other)
                except Exception as e:
                    if not originates_in_library(e):
                        raise
                    ctx.count("comparison_with_other_letter_order_refused")
                    raise Skip()
            if op == "copy":
                return obj.copy()
            if op == "ravel":
                return obj.ravel()
            if op == "concat":
                return np.concatenate([obj, mk(p["other"])])
            if op == "concat_other_enc":
                return concat_other_enc(obj, p, ename)
            if op == "to_string":
                return obj.to_string()
            if op == "assign_slice":
                c = obj.copy()
                c[p["a"]:p["b"]] = p["value"] if p["value"] else mk("")
                return c
            if op == "assign_scalar":
                c = obj.copy()
                c[p["i"]] = p["c"]
                return c
            if op == "concat_assign":
                other = mk(p["other"])
                res = np.concatenate([obj, other] if p["first"] else [other, obj])
                if len(res):
                    res[:] = mk(p["c"] * len(res))
                return [res.to_string(), obj.to_string()]
            if op == "assign_encoded":
                c = obj.copy()
                c[p["a"]:p["b"]] = bnp.as_encoded_array(p["value"]) if p["as"] == "ascii-array" else mk(p["value"])
                return c
        if kind == "matrix":
            if op == "row_int":
                return obj[p["i"]]
            if op == "row_slice":
                return obj[slice(p["start"], p["stop"], p["step"])]
            if op == "row_mask":
                return obj[np.array(p["mask"], dtype=bool)]
            if op == "row_fancy":
                return obj[np.array(p["idx"], dtype=int)]
            if op == "col_int":
                return obj[:, p["j"]]
            if op == "col_slice":
                return obj[:, slice(p["start"], p["stop"], p["step"])]
            if op == "col_reverse":
                return obj[:, ::-1]
            if op == "elem":
                return obj[p["i"], p["j"]]
            if op == "assign_elem":
                c = obj.copy()
                c[p["i"], p["j"]] = p["c"]
                return c
            if op == "eq_char":
                return obj == p["c"]
            if op == "copy":
                return obj.copy()
            if op == "ravel":
                return obj.ravel()
        raise Skip()

    def observed(res, new_kind):
        if new_kind == "bool":
            return np.asarray(res).tolist() if not hasattr(res, "tolist") or isinstance(res, np.ndarray) else res.tolist()
        if new_kind in ("pylist",):
            return list(res)
        if new_kind == "pystr":
            return res
        if new_kind == "flat0":
            return res.to_string() if hasattr(res, "to_string") else str(res)
        if new_kind == "flat":
            return res.to_string()
        if new_kind in ("ragged", "matrix"):
            if len(res) == 0:
                return []
            return text_rows(res)
        raise ValueError(new_kind)

    def program(case):
        r = random.Random(case["seed"])
        ename = r.choice(list(ENC))
        alpha = ALPH[ename]
        shape = r.choice(["ragged", "ragged", "ragged", "flat", "matrix"])
        if shape == "flat":
            model = "".join(r.choice(alpha) for _ in range(r.choice([0, 1, 2, 5, 9])))
            if r.random() < 0.012:
                from bnpmon.util import boundary_length
                L_ = boundary_length(r, 1 << 16)
                model = "".join(np.array(list(alpha))[np.random.default_rng(case["seed"] % 2 ** 32).integers(0, len(alpha), size=L_)]) if L_ else ""
                ctx.count("programs_with_a_long_row")
            obj = bnp.as_encoded_array(model, ENC[ename]) if ename != "ascii" else bnp.as_encoded_array(model)
            model = up(ename, model)
        elif shape == "matrix":
            w = r.randint(0, 4)
            n = r.randint(1, 4)
            rows = ["".join(r.choice(alpha) for _ in range(w)) for _ in range(n)]
            obj = EncodedArray(np.array([[ord(c) for c in s] for s in rows], dtype=np.uint8).reshape(n, w), bnp.encodings.BaseEncoding)
            if ename != "ascii":
                obj = bnp.as_encoded_array(obj, ENC[ename])
            model = [up(ename, s) for s in rows]
        else:
            n = r.choice([1, 1, 2, 3, 5])
            mode = r.random()
            rows = ["".join(r.choice(alpha) for _ in range(0 if mode < 0.1 else r.randint(0, 6))) for _ in range(n)]
            if r.random() < 0.012:
                # one long row, its length at or next to a block size (the list model is the same at any length)
                from bnpmon.util import boundary_length
                L_ = boundary_length(r, 1 << 16)
                rows[r.randrange(n)] = "".join(np.array(list(alpha))[np.random.default_rng(case["seed"] % 2 ** 32).integers(0, len(alpha), size=L_)]) if L_ else ""
                ctx.count("programs_with_a_long_row")
            obj = bnp.as_encoded_array(rows, ENC[ename]) if ename != "ascii" else bnp.as_encoded_array(rows)
            model = [up(ename, s) for s in rows]
        if r.random() < 0.12:
            # the array went through pickle / deepcopy (a worker process, a cache): same letters, another object graph
            import copy as _copy, pickle as _pickle
            try:
                obj = _pickle.loads(_pickle.dumps(obj)) if (shape == "ragged" and r.random() < 0.5) else _copy.deepcopy(obj)
                ctx.count("programs_on_pickled_or_deepcopied_arrays")
            except Exception:
                pass
        if r.random() < 0.3:
            for ch in r.sample(list(alpha), min(3, len(alpha))):
                one = bnp.as_encoded_array(ch, ENC[ename]) if ename != "ascii" else bnp.as_encoded_array(ch).copy()
                try:
                    one[0] = r.choice(alpha)
                except Exception:
                    pass
            ctx.count("one_character_arrays_edited_before_the_program")
        kind = shape
        history = []
        # blind chains: intermediate results are handed to the next operation without the harness decoding them (decoding flattens a lazy
        # selection in place, which hides anything that only goes wrong on a not-yet-flattened view); only the end of the chain is judged
        blind = r.random() < 0.4
        pending = None
        init = {"encoding": ename, "shape": shape, "initial": model, "blind": blind}
        for step in range(r.randint(1, maxops)):
            try:
                op, p = gen_op(kind, model, r, ename)
                new_kind, new_model = apply_model(kind, model, op, p, ename)
            except Skip:
                continue
            except (IndexError, ValueError):
                continue
            history.append([op, p])
            wit = dict(init, program=history)
            nt = (ename, repr(init["initial"]), repr(history)) if (len("".join(model) if isinstance(model, list) else model) >= 2) else None
            opkey = "%s.%s" % (kind, op)
            try:
                res = apply_real(kind, obj, op, p, ename)
            except Skip:
                history.pop()
                continue
            except Exception as e:
                if not originates_in_library(e):
                    raise
                et, site = exc_site(e)
                ctx.judged(opkey, nt)
                ctx.violation("%s/raised:%s" % (opkey, et), "%s raised %s: %s" % (opkey, et, str(e)[:120]), dict(wit, error=str(e)[:200]))
                return
            if res is NotImplemented:
                ctx.observe("operation-not-implemented:%s" % opkey)
                history.pop()
                continue
            if blind and new_kind in ("ragged", "flat", "matrix"):
                obj, model, kind = res, new_model, new_kind
                pending = (opkey, dict(wit, program=list(history)), nt)
                ctx.count("blind_steps")
                continue
            pending = None if blind and op in ("tolist", "ravel", "copy") else pending
            try:
                got = observed(res, new_kind)
            except Exception as e:
                ctx.judged(opkey, nt)
                ctx.violation("%s/result-not-decodable:%s" % (opkey, type(e).__name__), "result of %s cannot be decoded: %s" % (opkey, str(e)[:100]), wit)
                return
            if (op.startswith("assign") or op == "copy") and not blind:
                # item assignment ran on a copy: the object the copy was taken from still decodes to its own model
                try:
                    still = observed(obj, kind)
                except Exception:
                    still = None
                ctx.check("source-unchanged-by-copy+assign", still == model, "%s/assignment-to-a-copy-changed-the-source" % opkey, "after %s on a copy the source reads %r, expected %r" % (op, still if not isinstance(still, list) else still[:5], model if not isinstance(model, list) else model[:5]),
                          dict(wit, source_now=still, expected=model), nt and (nt, "src"))
            ok = got == new_model
            ctx.check(opkey, ok, "%s/differs-from-list-model" % opkey, "%s: got %r, list model %r" % (opkey, got if not isinstance(got, list) else got[:6], new_model if not isinstance(new_model, list) else new_model[:6]),
                      dict(wit, got=got, expected=new_model), nt)
            if not ok:
                return
            if new_kind in ("ragged", "flat", "matrix", "flat0"):
                if hasattr(res, "encoding"):
                    ctx.check("encoding-preserved", res.encoding == obj.encoding, "%s/encoding-changed" % opkey, "%s returned encoding %r for operand encoding %r" % (opkey, res.encoding, obj.encoding), wit, nt and (nt, "enc"))
                b = bounds_violation(res)
                ctx.count("m6_bounds_checked")
                if b:
                    ctx.violation("bounds/%s" % opkey, "result of %s: %s" % (opkey, b), wit)
            if new_kind in ("ragged", "flat", "matrix"):
                obj, model, kind = res, new_model, new_kind
            # else: keep operating on the previous object
        if blind and pending is not None:
            opkey, wit, nt = pending
            try:
                got = observed(obj, kind)
            except Exception as e:
                if not originates_in_library(e):
                    raise
                ctx.judged("chain-end", nt)
                ctx.violation("chain-end.%s/result-not-decodable:%s" % (opkey, type(e).__name__), "the end of an unobserved chain cannot be decoded: %s" % str(e)[:100], wit)
                return
            ctx.check("chain-end", got == model, "chain-end.%s/differs-from-list-model" % opkey, "unobserved chain ending in %s: got %r, list model %r" % (opkey, got if not isinstance(got, list) else got[:6], model if not isinstance(model, list) else model[:6]),
                      dict(wit, got=got, expected=model), nt)
            b = bounds_violation(obj)
            if b:
                ctx.violation("bounds/chain-end.%s" % opkey, "end of chain: %s" % b, wit)

    n = ctx.share(ctx.pick(24000, 1000000))
    for i in range(n):
        ctx.run_case(program, {"seed": rng.randrange(2 ** 40)})
    ctx.sample({"encoding": "DNA", "initial": ["ACG", "", "TT"], "program": [["row_slice", {"start": None, "stop": None, "step": -1}], ["col_reverse", {}], ["row_fancy", {"idx": [0, 1]}], ["eq_char", {"c": "T"}]]})
    ctx.floor("m6_bounds_checked", ctx.pick(1000, 20000))
    ctx.floor("judged:ragged.row_slice", ctx.pick(100, 2000))
    ctx.floor("judged:flat.slice", ctx.pick(50, 1000))
    ctx.floor("blind_steps", ctx.pick(500, 10000))       # the un-decoded / lazy-view variants must actually have run


def replay(ctx, w):
    pass
