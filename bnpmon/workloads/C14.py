"""C14 — reverse complement, stranded extraction and translation are biologically exact.

Boundary monitor against Biopython AND a table-driven model (both must agree with each other and with the library).
"""
import itertools
import random
import os

import numpy as np

RULE = ("exhaustive symbol x encoding grid ({A,C,G,T,N,a,c,g,t,n} x {ASCII, ACGT, ACGTn, ACTG}), all strings of length <=3 over ACGTN + random lists with "
        "empty rows for reverse complement (rows, involution, row lengths); random sequences x random stranded interval sets through "
        "get_strand_specific_sequences and Genome.read_sequence()[stranded intervals] (FASTA on disk); all 64 codons and random codon concatenations, upper/lower case, "
        "for translation; distinct = (function, encoding, input); non-trivial = input has >= 2 letters")
ASSUMPTIONS = ["Bio.Seq.reverse_complement / translate (standard table) and the table model agree (checked on every case)",
               "comparison is case-insensitive; an encoding exception is an allowed outcome for an encoding the function does not accept, a wrong letter is not"]
EXHAUSTIVE_CORE = "symbol x encoding grid; all strings <=3 over ACGTN; all 64 codons"

COMP = {"A": "T", "C": "G", "G": "C", "T": "A", "N": "N"}
CODON = {}
_aa = "FFLLSSSSYY**CC*WLLLLPPPPHHQQRRRRIIIMTTTTNNKKSSRRVVVVAAAADDEEGGGG"
for i, (a, b, c) in enumerate(itertools.product("TCAG", repeat=3)):
    CODON[a + b + c] = _aa[i]


def preload():
    import bionumpy  # noqa
    import bionumpy.sequence.dna, bionumpy.sequence.translate, bionumpy.genomic_data.genomic_sequence  # noqa


def rc_model(s):
    return "".join(COMP[c] for c in reversed(s.upper()))


def translate_model(s):
    s = s.upper()
    return "".join(CODON[s[i:i + 3]] for i in range(0, len(s), 3))


def run(ctx):
    import bionumpy as bnp
    from Bio.Seq import Seq
    from bionumpy.encodings import alphabet_encoding as ae
    from bionumpy.sequence import get_reverse_complement, get_strand_specific_sequences, translate_dna_to_protein
    from bionumpy.datatypes import StrandedInterval, Bed6
    from bnpmon.util import text_rows, lazy_selection
    rng = ctx.rng
    ENC = {"ascii": None, "ACGT": ae.ACGTEncoding, "ACGTn": ae.ACGTnEncoding, "ACTG": ae.ACTGEncoding, "ACTGn": ae.ACTGnEncoding}

    ENC_ALL = dict(ENC, TCAG=ae.AlphabetEncoding("TCAG"))        # the codon table's own letter order (translation only)

    def encode(rows, ename):
        if isinstance(rows, str):
            return bnp.as_encoded_array(rows) if ENC_ALL[ename] is None else bnp.as_encoded_array(rows, ENC_ALL[ename])
        return bnp.as_encoded_array(list(rows)) if ENC_ALL[ename] is None else bnp.as_encoded_array(list(rows), ENC_ALL[ename])

    def case_rc(c):
        rows, ename = c["rows"], c["enc"]
        flat = c.get("flat", False)
        inp_rows = rows[0] if flat else rows
        exp = [rc_model(r) for r in rows]
        bio = [str(Seq(r).reverse_complement()).upper() for r in rows]
        if exp != bio:
            raise AssertionError("reference models disagree: %r %r" % (exp, bio))
        has_n = any("N" in r.upper() for r in rows)
        try:
            x = encode(inp_rows, ename)
            if c.get("view") and not flat:
                # the same rows as a lazy row selection of a bigger array (nothing looks at it before the call)
                vr = random.Random(c["view"])
                x, _ = lazy_selection(lambda rr: encode(rr, ename), rows, vr, lambda: "".join(vr.choice("ACGT") for _ in range(vr.randint(0, 4))))
                ctx.count("lazy_selection_inputs")
        except Exception as e:
            if has_n and ename in ("ACGT", "ACTG"):
                ctx.count("rejected_by_encoding")
                return
            raise
        if c.get("copied"):
            # the array went through pickle / deepcopy (what multiprocessing or a cache does): same data, another object graph
            import copy, pickle
            x = pickle.loads(pickle.dumps(x)) if c["copied"] == 1 else copy.deepcopy(x)
        res = get_reverse_complement(x)
        if not flat and c.get("elements") and any(rows):
            # single letters and fancy (row, column) reads of the result, before anything else has looked at it
            er = random.Random(c["elements"])
            cells = [(i, j) for i, r_ in enumerate(rows) for j in range(len(r_))]
            pick = [er.choice(cells) for _ in range(min(4, len(cells)))]
            exp_cells = [rc_model(rows[i])[j] for i, j in pick]
            try:
                if er.random() < 0.5:
                    got_cells = [res[i, j].to_string().upper() if hasattr(res[i, j], "to_string") else str(res[i, j]).upper() for i, j in pick]
                else:
                    sub = res[np.array([i for i, _ in pick]), np.array([j for _, j in pick])]
                    got_cells = list(sub.to_string().upper()) if hasattr(sub, "to_string") else [str(v).upper() for v in sub]
            except Exception as e:
                got_cells = "raised %s" % type(e).__name__
            ctx.check("reverse_complement", got_cells == exp_cells, "reverse_complement/wrong-letters:single-elements-of-the-fresh-result", "letters %r of the reverse complement of %r read %r, expected %r" % (pick, rows, got_cells, exp_cells),
                      dict(c, cells=pick, got=got_cells, expected=exp_cells), (ename, tuple(rows), tuple(pick)))
            ctx.count("element_reads_of_fresh_results")
        got = [t.upper() for t in text_rows(res)]
        nontriv = (ename, tuple(rows)) if sum(map(len, rows)) >= 2 else None
        lower = any(ch.islower() for r in rows for ch in r)
        ok = ctx.check("reverse_complement", got == exp, "reverse_complement/wrong-letters:%s%s" % ("ascii" if ename == "ascii" else "alphabet", "+lowercase" if lower and ename == "ascii" else ""),
                       "reverse complement of %r (%s) gave %r, expected %r" % (rows, ename, got, exp), dict(c, got=got, expected=exp), nontriv)
        if ok:
            res2 = get_reverse_complement(res)
            got2 = [t.upper() for t in text_rows(res2)]
            ctx.check("rc-involution", got2 == [r.upper() for r in rows], "reverse_complement/not-involution", "applying reverse complement twice gave %r for %r" % (got2, rows), dict(c, got=got2), nontriv)
            after = [t.upper() for t in text_rows(x)]
            if after != [r.upper() for r in rows]:
                ctx.violation("reverse_complement/mutated-input", "input changed by get_reverse_complement", c)

    # exhaustive grids
    items = []
    for ename in ENC:
        for ch in "ACGTNacgtn":
            items.append({"rows": [ch], "enc": ename, "flat": True})
            items.append({"rows": [ch, ""], "enc": ename})
        for L in (2, 3):
            for p in itertools.product("ACGTN", repeat=L):
                s = "".join(p)
                items.append({"rows": [s], "enc": ename, "flat": True})
        for p in itertools.product("ACGTNacgtn", repeat=2):
            items.append({"rows": ["".join(p), "", "".join(p)[::-1] + "A"], "enc": ename})
    for it in ctx.mine(items):
        ctx.run_case(case_rc, it)
    for _ in range(ctx.share(ctx.pick(2000, 400000))):
        ename = rng.choice(list(ENC))
        alpha = rng.choice(["ACGT", "ACGTN", "ACGTNacgtn", "acgt"])
        rows = ["".join(rng.choice(alpha) for _ in range(rng.choice([0, 1, 2, 5, 17]))) for _ in range(rng.randint(1, 5))]
        ctx.run_case(case_rc, {"rows": rows, "enc": ename, "view": rng.randrange(1, 2 ** 30) if rng.random() < 0.3 else 0, "copied": rng.choice([0, 0, 0, 0, 1, 2]), "elements": rng.randrange(1, 2 ** 30) if rng.random() < 0.25 else 0})
    # rows of about 100 000 bases whose lengths differ by one (whole chromosomes arms / long reads)
    def case_long(c):
        r = random.Random(c["seed"])
        lens = [100000, 100001, 99999] if c["seed"] % 2 else [r.randint(99990, 100010) for _ in range(r.randint(2, 4))]
        rows_l = ["".join(r.choices("ACGT", k=L)) for L in lens]
        x = encode(rows_l, c["enc"])
        res = get_reverse_complement(x)
        got = text_rows(res)
        tr = str.maketrans("ACGT", "TGCA")
        exp = [s_[::-1].translate(tr) for s_ in rows_l]
        bad = next((i for i, (g_, e_) in enumerate(zip(got, exp)) if g_.upper() != e_), None)
        ctx.check("reverse_complement", bad is None and len(got) == len(exp), "reverse_complement/wrong-letters:rows-of-1e5-bases", "reverse complement of rows of lengths %r differs in row %r" % (lens, bad), {"lengths": lens, "seed": c["seed"], "enc": c["enc"], "row": bad}, ("long", c["seed"]))
    for j in range(ctx.pick(1, 8)):
        ctx.run_case(case_long, {"seed": ctx.seed * 911 + ctx.shard * 3 + j, "enc": rng.choice(["ascii", "ACGT"])})
    ctx.sample({"reverse_complement_case": {"rows": rows, "enc": ename}})

    # ---- stranded extraction ----------------------------------------------------------------
    def case_stranded(c):
        s, ivs, ename = c["sequence"], c["intervals"], c["enc"]
        seq = encode(s, ename)
        if c.get("edit"):
            seq = seq.copy()            # text encoded from a str is a read-only buffer; a caller who edits its reference holds a copy
        table = StrandedInterval(["x"] * len(ivs), [a for a, b, st in ivs], [b for a, b, st in ivs], [st for a, b, st in ivs])
        res = get_strand_specific_sequences(seq, table)
        got = [t.upper() for t in text_rows(res)]
        exp = [(s[a:b].upper() if st == "+" else rc_model(s[a:b])) for a, b, st in ivs]
        ctx.check("strand_specific", got == exp, "get_strand_specific_sequences/wrong", "stranded extraction gave %r expected %r" % (got[:3], exp[:3]), dict(c, got=got, expected=exp), (s, tuple(ivs), ename))
        if c.get("streamed") and len(ivs) >= 2:
            # the intervals arrive as a stream of chunks (the reference is the constant first argument): the chunks' results, in order
            from bionumpy.streams import NpDataclassStream
            cut_ = max(1, len(ivs) // 2)
            st_ = NpDataclassStream(iter([table[:cut_], table[cut_:]]), dataclass=StrandedInterval)
            try:
                parts_ = [t_.upper() for chunk_res in get_strand_specific_sequences(encode(s, ename), st_) for t_ in text_rows(chunk_res)]
            except Exception as e:
                from bnpmon.ctx import originates_in_library
                if not originates_in_library(e):
                    raise
                parts_ = "raised %s" % type(e).__name__
            ctx.check("strand_specific", parts_ == exp, "get_strand_specific_sequences/wrong:intervals-given-as-a-stream", "stranded extraction over a stream of interval chunks gave %r expected %r" % (parts_ if isinstance(parts_, str) else parts_[:3], exp[:3]), dict(c, got=parts_, expected=exp), (s, tuple(ivs), ename, "stream"))
            ctx.count("stranded_extractions_over_streams")
        if c.get("edit") and len(s) >= 2:
            # the caller edits the reference in place (masks a stretch) and extracts again from the same object: the letters now held count
            er = random.Random(c["edit"])
            a_ = er.randrange(len(s) - 1)
            b_ = er.randint(a_ + 1, min(len(s), a_ + 4))
            fill = er.choice(["N", "A"]) if ename != "ACGT" else er.choice("ACGT")
            seq[a_:b_] = fill * (b_ - a_)
            s2 = s[:a_] + fill * (b_ - a_) + s[b_:]
            got2 = [t.upper() for t in text_rows(get_strand_specific_sequences(seq, table))]
            exp2 = [(s2[a:b].upper() if st == "+" else rc_model(s2[a:b])) for a, b, st in ivs]
            ctx.check("strand_specific", got2 == exp2, "get_strand_specific_sequences/letters-of-before-an-in-place-edit", "after seq[%d:%d] = %r the extraction gave %r, the reference now reads %r" % (a_, b_, fill, got2[:3], exp2[:3]),
                      dict(c, edited=s2, got=got2, expected=exp2), (s, tuple(ivs), ename, a_, b_, fill))
            ctx.check("strand_specific", [t.upper() for t in text_rows(res)] == exp, "get_strand_specific_sequences/held-result-changed-by-an-edit-of-the-reference", "the first extraction now reads %r" % ([t.upper() for t in text_rows(res)][:3],), dict(c), None)
            ctx.count("extractions_after_an_edit")

    for _ in range(ctx.share(ctx.pick(1500, 240000))):
        ename = rng.choice(["ascii", "ACGTn", "ACGT"])
        alpha = "ACGT" if ename == "ACGT" else rng.choice(["ACGT", "ACGTN"])
        L = rng.randint(1, 30)
        s = "".join(rng.choice(alpha) for _ in range(L))
        ivs = []
        for _ in range(rng.randint(1, 5)):
            a = rng.randint(0, L - 1)
            b = rng.randint(a + 1, L)
            ivs.append((a, b, rng.choice("+-")))
        ctx.run_case(case_stranded, {"sequence": s, "intervals": ivs, "enc": ename, "edit": rng.randrange(1, 2 ** 30) if rng.random() < 0.3 else 0, "streamed": rng.random() < 0.25})

    def case_genomic(c):
        chroms, ivs = c["chroms"], c["intervals"]
        path = ctx.path("g.fa")
        with open(path, "w") as f:
            for name, s in chroms:
                f.write(">%s\n" % name)
                w = c["wrap"]
                for i in range(0, len(s), w):
                    f.write(s[i:i + w] + "\n")
        d = dict(chroms)
        table = Bed6([n for n, a, b, st in ivs], [a for n, a, b, st in ivs], [b for n, a, b, st in ivs], ["i%d" % i for i in range(len(ivs))], [0] * len(ivs), [st for n, a, b, st in ivs])
        exp = [(d[n][a:b].upper() if st == "+" else rc_model(d[n][a:b])) for n, a, b, st in ivs]
        route = c.get("route", "file")
        if route == "file":
            g = bnp.Genome.from_file(path)
            seq = g.read_sequence()
            results = [("[]", lambda: seq[g.get_intervals(table, stranded=True)])]
            if ivs:
                # the same intervals read from a BED6 file by the genome (columns parsed lazily from text)
                bedpath = ctx.path("iv.bed")
                with open(bedpath, "w") as f:
                    for i, (n, a, b, st) in enumerate(ivs):
                        f.write("%s\t%d\t%d\ti%d\t0\t%s\n" % (n, a, b, i, st))
                results.append(("[read_intervals(file)]", lambda: seq[g.read_intervals(bedpath, stranded=True)]))
        else:
            from bionumpy.genomic_data.genomic_sequence import GenomicSequence
            g = bnp.Genome.from_dict({n: len(sq) for n, sq in chroms})
            seq = GenomicSequence.from_dict(d)
            results = [("[]", lambda: seq[g.get_intervals(table, stranded=True)]), ("extract_intervals", lambda: seq.extract_intervals(table, stranded=True))]
            if len(ivs) >= 2:
                # the stranded interval set put together from two parts with np.concatenate
                cutc = max(1, len(ivs) // 2)
                results.append(("[concatenated-interval-sets]", lambda: seq[np.concatenate([g.get_intervals(table[:cutc], stranded=True), g.get_intervals(table[cutc:], stranded=True)])]))
        grouped = all(ivs[i][0] == ivs[i + 1][0] or ivs[i + 1][0] not in [x[0] for x in ivs[:i + 1]] for i in range(len(ivs) - 1))
        for how, fn in results:
            res = fn()
            got = [t.upper() for t in text_rows(res)] if len(res) else []
            ctx.check("genomic_sequence[stranded]", got == exp, "GenomicSequence[stranded-intervals]/wrong:%s:%s%s" % (route, how, "" if grouped else ":intervals-not-grouped-by-contig"),
                      "GenomicSequence %s (%s backend) for stranded intervals gave %r expected %r" % (how, route, got[:4], exp[:4]), dict(c, got=got, expected=exp, how=how), (tuple(chroms), tuple(ivs), route, how))
        for p in (path, path + ".fai"):
            if os.path.exists(p):
                os.remove(p)

    for _ in range(ctx.share(ctx.pick(480, 36000))):
        chroms = [("chr%d" % (i + 1), "".join(rng.choice("ACGTN" if rng.random() < 0.3 else "ACGT") for _ in range(rng.randint(1, 40)))) for i in range(rng.randint(1, 3))]
        if rng.random() < 0.4:
            # soft-masked stretches: lower-case letters in the reference (the extraction is compared letter for letter, case apart)
            chroms = [(n_, "".join(ch.lower() if rng.random() < 0.5 else ch for ch in s_)) for n_, s_ in chroms]
        route = rng.choice(["file", "dict"])
        if route == "file" and rng.random() < 0.4:
            # a contig that Genome.from_file ignores ('_' in its name) somewhere before the end of the FASTA: record order != the genome's contig order
            chroms.insert(rng.randrange(len(chroms)), ("chr1_alt", "".join(rng.choice("ACGT") for _ in range(rng.randint(1, 40)))))
        usable = [c for c in chroms if "_" not in c[0]]
        ivs = []
        for _ in range(rng.randint(1, 6)):
            n, s = rng.choice(usable)
            a = rng.randint(0, len(s) - 1)
            b = rng.randint(a + 1, len(s))
            ivs.append((n, a, b, rng.choice("+-")))
        order = {n: i for i, (n, _) in enumerate(chroms)}
        if rng.random() < 0.5:
            ivs.sort(key=lambda t: (order[t[0]], t[1], t[2]))      # otherwise: an unsorted interval table (valid BED)
        ctx.run_case(case_genomic, {"chroms": chroms, "intervals": ivs, "wrap": rng.choice([1, 3, 7, 60]), "route": route})

    # ---- spliced interval sets: transcript sequences from exon entries of an annotation ------------
    def case_transcripts(c):
        from bionumpy.sequence.genes import get_transcript_sequences
        r = random.Random(c["seed"])
        L = r.randint(30, 200)
        ref = "".join(r.choice("ACGTN" if r.random() < 0.1 else "ACGT") for _ in range(L))
        if r.random() < 0.3:
            ref = "".join(ch.lower() if r.random() < 0.4 else ch for ch in ref)
        lines, exp = [], []
        pos = 1
        # the exon table holds the start and stop columns as the numbers written in the file; the sequence of an exon is reference[start:stop]
        for ti in range(r.randint(1, 4)):
            strand = r.choice("+-")
            ne = r.choice([1, 2, 2, 3, 4])
            exons = []
            for _ in range(ne):
                a = pos + r.randint(0, 5)
                b = a + r.randint(1, 8)
                if b > L:
                    break
                exons.append((a, b))
                pos = b + r.randint(0, 3)
            if not exons:
                break
            attrs = 'gene_id "g%d"; transcript_id "t%d";' % (ti, ti)
            lines.append("chr1\tsrc\tgene\t%d\t%d\t.\t%s\t.\tgene_id \"g%d\";" % (exons[0][0], exons[-1][1], strand, ti))
            lines.append("chr1\tsrc\ttranscript\t%d\t%d\t.\t%s\t.\t%s" % (exons[0][0], exons[-1][1], strand, attrs))
            for k, (a, b) in enumerate(exons):
                lines.append("chr1\tsrc\texon\t%d\t%d\t.\t%s\t.\t%s exon_number \"%d\"; exon_id \"t%d.%d\";" % (a, b, strand, attrs, k + 1, ti, k + 1))
            fwd = "".join(ref[a:b] for a, b in exons)
            exp.append(("t%d" % ti, fwd.upper() if strand == "+" else rc_model(fwd), strand, len(exons)))
        if not exp:
            return
        path = ctx.path("ann.gtf")
        with open(path, "w") as f:
            f.write("\n".join(lines) + "\n")
        entries = bnp.open(path).read()
        reference = bnp.as_encoded_array(ref) if r.random() < 0.5 else bnp.as_encoded_array(ref.upper(), ae.ACGTnEncoding)
        res = get_transcript_sequences(entries, reference)
        got = list(zip([str(x) for x in res.name.tolist()], [t.upper() for t in text_rows(res.sequence)]))
        want = [(n_, s_) for n_, s_, _, _ in exp]
        multi_minus = any(st == "-" and k >= 2 for _, _, st, k in exp)
        ctx.check("transcripts", got == want, "get_transcript_sequences/wrong%s" % (":minus-strand-transcript-with-several-exons" if multi_minus and [g for g, w in zip(got, want) if g != w and w in [(n_, s_) for n_, s_, st, k in exp if st == "-" and k >= 2]] else ""),
                  "get_transcript_sequences gave %r, the spliced (and for '-' reverse-complemented) reference is %r" % (got[:3], want[:3]), {"reference": ref, "annotation": lines, "got": got, "expected": want, "seed": c["seed"]},
                  (ref, tuple(lines)) if multi_minus else None)
        ctx.count("transcript_cases")

    for _ in range(ctx.share(ctx.pick(320, 24000))):
        ctx.run_case(case_transcripts, {"seed": rng.randrange(2 ** 40)})
    ctx.floor("transcript_cases", ctx.pick(5, 100))

    # ---- translation -------------------------------------------------------------------------
    def case_translate(c):
        rows, ename = c["rows"], c["enc"]
        exp = [translate_model(r) for r in rows]
        bio = [str(Seq(r.upper()).translate()) for r in rows]
        if exp != bio:
            raise AssertionError("reference models disagree: %r %r" % (exp, bio))
        x = encode(rows, ename)
        if c.get("view"):
            vr = random.Random(c["view"])
            x, _ = lazy_selection(lambda rr: encode(rr, ename), rows, vr, lambda: "".join(vr.choice("ACGT") for _ in range(3 * vr.randint(0, 2))))
            ctx.count("lazy_selection_inputs")
        try:
            res = translate_dna_to_protein(x)
        except Exception as e:
            if ename != "ascii" and type(e).__name__ in ("EncodingException", "EncodingError", "AssertionError"):
                ctx.observe("translate-raises-on-alphabet-encoded-input(allowed outcome):%s" % ename, {"rows": rows, "error": str(e)[:100]})
                ctx.judged("translate", None)
                return
            raise
        got = [t.upper() for t in text_rows(res)]
        ctx.check("translate", got == exp, "translate/wrong-amino-acid:%s" % ("ascii" if ename == "ascii" else "alphabet"), "translation of %r (%s) gave %r, expected %r" % (rows, ename, got, exp),
                  dict(c, got=got, expected=exp), (ename, tuple(rows)))
        after_in = [t.upper() for t in text_rows(x)] if len(x) else []
        ctx.check("translate", after_in == [r_.upper() for r_ in rows], "translate/input-changed", "the DNA handed to translate_dna_to_protein reads %r afterwards, was %r" % (after_in[:3], rows[:3]), dict(c, after=after_in), None)
        if after_in == [r_.upper() for r_ in rows]:
            again = [t.upper() for t in text_rows(translate_dna_to_protein(x))]
            ctx.check("translate", again == exp, "translate/second-translation-of-the-same-object-differs", "translating the same object again gave %r, expected %r" % (again[:3], exp[:3]), dict(c, got=again), None)
        # results that are still held while later translations run must keep their value (no shared output buffers)
        held.append((res, exp, dict(c)))
        if len(held) >= 6:
            check_held()

    held = []

    def check_held():
        for res, exp, c in held:
            got = [t.upper() for t in text_rows(res)]
            ctx.check("translate-held", got == exp, "translate/held-result-changed-by-a-later-translation", "a translation result held while %d later translations ran now reads %r, expected %r" % (len(held), got[:4], exp[:4]),
                      dict(c, got=got, expected=exp), None)
        del held[:]

    codons = ["".join(p) for p in itertools.product("ACGT", repeat=3)]
    titems = []
    for ename in ("ascii", "ACGT", "ACTG", "TCAG"):
        for cod in codons:
            titems.append({"rows": [cod], "enc": ename})
            titems.append({"rows": [cod.lower(), "", cod + cod[::-1]], "enc": ename})
    for it in ctx.mine(titems):
        ctx.run_case(case_translate, it)
    for _ in range(ctx.share(ctx.pick(1500, 240000))):
        rows = ["".join(rng.choice(codons) for _ in range(rng.choice([0, 1, 2, 5, 20]))) for _ in range(rng.randint(1, 4))]
        if rng.random() < 0.3:
            rows = [r.lower() if rng.random() < 0.5 else r for r in rows]
        ctx.run_case(case_translate, {"rows": rows, "enc": rng.choice(["ascii", "ascii", "ACGT", "TCAG"]), "view": rng.randrange(1, 2 ** 30) if rng.random() < 0.3 else 0})
    check_held()
    ctx.floor("judged:translate-held", ctx.pick(100, 3000))
    ctx.floor("judged:reverse_complement", ctx.pick(300, 5000))
    ctx.floor("judged:translate", ctx.pick(100, 3000))
    ctx.floor("judged:strand_specific", ctx.pick(50, 3000))
    ctx.floor("judged:genomic_sequence[stranded]", ctx.pick(5, 300))
    ctx.floor("lazy_selection_inputs", ctx.pick(50, 1000))       # the un-decoded / lazy-view variants must actually have run


def replay(ctx, w):
    pass
