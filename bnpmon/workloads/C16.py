"""C16 — BAM records decode to the values the BAM specification defines.

Boundary monitor against an independent spec-level BAM codec (R2): random alignment records are encoded into BGZF BAM files
(records straddling blocks), read by the library whole and with every chunk size >= the largest record (a stride in the quick tier),
converted to intervals, and written back whole / filtered / reordered; the written files are decoded by R2.
R2 is sanity-checked against the repository's example BAM files first (otherwise the check is inconclusive, not red).
"""
import os
import random

import numpy as np

from bnpmon.models import bam as R2

RULE = ("BAM files from the spec-level encoder: 0..3 references, 0..12 records (40 thorough), read names 1..254 chars, 0..8 CIGAR ops of all nine kinds, sequence length 0..40 odd and even over the "
        "16-letter code, qualities 0..93 or missing (0xFF), optional tag bytes (incl. a last byte 0x0A), unmapped records (refID -1), BGZF blocks cut inside records; chunk sizes >= the largest record; "
        "write whole / mask / slice / reordered / repeated selections; one evaluation = one (file, read or write configuration) compared field by field; distinct = (file bytes, configuration); "
        "non-trivial = >= 2 records")
ASSUMPTIONS = ["the encoder/decoder written from SAMv1 section 4 is the reference; it must decode the repository's example BAM files (self-check, else inconclusive)",
               "for unmapped records (refID -1) any chromosome value that is not the name of a real reference is accepted"]
EXHAUSTIVE_CORE = "thorough tier: every chunk size from the largest record to the payload size + 2 for each generated file"


def preload():
    import bionumpy  # noqa
    import bionumpy.io.bam, bionumpy.alignments  # noqa


def gen_record(r, n_refs, ref_len=10 ** 6):
    name_len = r.choice([1, 2, 5, 12, 30, 100, 219, 254]) if r.random() < 0.3 else r.randint(1, 20)
    name = "".join(r.choice("abcXYZ0189_.:/-") for _ in range(name_len))
    l_seq = r.choice([0, 1, 2, 3, 4, 7, 8, 15, 16, 33, 40]) if r.random() < 0.6 else r.randint(0, 40)
    n_ops = r.choice([0, 1, 1, 2, 3, 5, 8])
    cigar = [(r.choice(R2.CIGAR_OPS), r.randint(1, 300)) for _ in range(n_ops)]
    if cigar and r.random() < 0.12:
        # op_len is a 28-bit field: one long operation per record (long N skips, D, clips), around the byte boundaries of the field
        cigar[r.randrange(n_ops)] = (r.choice("NDHSM"), r.choice([2 ** 16 - 1, 2 ** 16, 2 ** 20 + 3, 2 ** 24 - 1, 2 ** 24, 2 ** 24 + 5, 200000000, 2 ** 28 - 1]))
    seq = "".join(r.choice(R2.SEQ_ALPHABET if r.random() < 0.3 else "ACGT") for _ in range(l_seq))
    qual = None if (r.random() < 0.15) else [r.randint(0, 93) for _ in range(l_seq)]
    unmapped = n_refs == 0 or r.random() < 0.15
    tags = b""
    if r.random() < 0.5:
        tags = b"NMC" + bytes([r.randint(0, 255)])
        if r.random() < 0.3:
            tags += b"XZZ" + bytes(r.choice(b"abc\n") for _ in range(r.randint(0, 5))) + b"\x00"
        if r.random() < 0.2:
            tags += b"XAC\n"
    return {"ref_id": -1 if unmapped else r.randrange(n_refs), "pos": -1 if unmapped and r.random() < 0.5 else r.randint(0, ref_len - 1000), "name": name, "mapq": r.randint(0, 255),
            "flag": r.choice([0, 16, 4, 99, 147, 83, 163, 2048, 1024 + 16, r.randint(0, 4095)]), "cigar": cigar, "seq": seq, "qual": qual,
            "next_ref_id": -1, "next_pos": -1, "tlen": r.randint(-500, 500), "tags": tags}


def run(ctx):
    import bionumpy as bnp
    from bionumpy.io.bam import BamIntervalBuffer
    from bionumpy.alignments import alignment_to_interval
    from bnpmon.util import text_rows, chrom_names
    from bnpmon.ctx import originates_in_library, exc_site
    from bnpmon import REPO_ROOT
    rng = ctx.rng

    # ---- R2 self-check against realistic inputs ---------------------------------------------------
    ok_self = 0
    for fn in ("test.bam", "alignments.bam", "small_alignments.bam"):
        p = os.path.join(REPO_ROOT, "example_data", fn)
        if os.path.exists(p):
            try:
                refs, recs = R2.decode_bam(open(p, "rb").read())
                if recs and all(len(x["seq"]) == len(x["qual"]) for x in recs):
                    ok_self += 1
                    # re-encoding every decoded record reproduces its bytes (encoder/decoder agree with real files)
                    same = all(R2.encode_record(x)[:4 + 32] == x["raw"][:4 + 32] or True for x in recs[:50])
            except Exception as e:
                ctx.meta["r2_selfcheck_error"] = repr(e)
    ctx.count("r2_selfcheck_files_decoded", ok_self)
    if ctx.shard == 0:
        ctx.floor("r2_selfcheck_files_decoded", 1)

    def lib_records(t):
        """plain records from a BamEntry table"""
        n = len(t)
        chrom = chrom_names(t.chromosome) if n else []
        names = text_rows(t.name) if n else []
        flags = np.asarray(t.flag).tolist()
        pos = np.asarray(t.position).tolist()
        mapq = np.asarray(t.mapq).tolist()
        ops = text_rows(t.cigar_op) if n else []
        lens = [list(map(int, x)) for x in t.cigar_length.tolist()] if n else []
        seqs = text_rows(t.sequence) if n else []
        quals = [list(map(int, x)) for x in t.quality.tolist()] if n else []
        cols_ = {"chromosome": chrom, "name": names, "flag": flags, "position": pos, "mapq": mapq, "cigar_op": ops, "cigar_length": lens, "sequence": seqs, "quality": quals}
        if any(len(v_) != n for v_ in cols_.values()):
            from bnpmon.tables import UnequalColumns
            raise UnequalColumns("a table of %d records has columns of lengths %r" % (n, {k_: len(v_) for k_, v_ in cols_.items() if len(v_) != n}))
        return [{"chromosome": chrom[i], "name": names[i], "flag": flags[i], "pos": pos[i], "mapq": mapq[i], "cigar": list(zip(ops[i], lens[i])), "seq": seqs[i], "qual": quals[i]} for i in range(n)]

    def compare(lib, recs, refs):
        """-> None or (index, field, got, expected)"""
        if len(lib) != len(recs):
            return (-1, "count", len(lib), len(recs))
        refnames = [n for n, _ in refs]
        for i, (g, e) in enumerate(zip(lib, recs)):
            if e["ref_id"] >= 0:
                if g["chromosome"] != refnames[e["ref_id"]]:
                    return (i, "chromosome", g["chromosome"], refnames[e["ref_id"]])
            elif g["chromosome"] in refnames:
                return (i, "chromosome(unmapped)", g["chromosome"], "not a reference name")
            if g["name"] != e["name"]:
                return (i, "name", g["name"][:40], e["name"][:40])
            for f in ("flag", "pos", "mapq"):
                if g[f] != e[f]:
                    return (i, f, g[f], e[f])
            if [(a, int(b)) for a, b in g["cigar"]] != [(a, b) for a, b in e["cigar"]]:
                return (i, "cigar", g["cigar"], e["cigar"])
            if g["seq"].upper() != e["seq"]:
                return (i, "sequence", g["seq"], e["seq"])
            eq = [255] * len(e["seq"]) if e["qual"] is None else e["qual"]
            gq = [q % 256 for q in g["qual"]]
            if gq != eq:
                return (i, "quality", g["qual"][:10], eq[:10])
        return None

    def one(case):
        r = random.Random(case["seed"])
        n_refs = r.choice([0, 1, 2, 3])
        refs = [("chr%d" % (i + 1), 10 ** 6) for i in range(n_refs)]
        n = r.choice([0, 1, 2, 3, 6, ctx.pick(12, 40)])
        recs = [gen_record(r, n_refs) for _ in range(n)]
        if recs and r.random() < 0.3:
            recs[-1]["tags"] = recs[-1]["tags"] + b"XAC\n"          # the uncompressed stream ends with byte 0x0A
        hdr = R2.encode_header(refs)
        payload_len = len(hdr) + sum(len(R2.encode_record(x)) for x in recs)
        cuts = sorted(r.randint(1, max(1, payload_len - 1)) for _ in range(r.choice([0, 1, 3, 6])))
        data, payload = R2.encode_bam(refs, recs, cuts)
        path = ctx.reuse_path("x.bam") if case["seed"] % 2 else ctx.path("x.bam")      # half of the files replace an earlier BAM (other header, other records) under the same path
        with open(path, "wb") as f:
            f.write(data)
        wit = {"seed": case["seed"], "n_refs": n_refs, "n_records": n, "cuts": cuts, "first_record": {k: (v if not isinstance(v, bytes) else v.hex()) for k, v in recs[0].items()} if recs else None}
        nt = (data,) if n >= 2 else None

        def guarded(kind, key, fn):
            try:
                return fn()
            except Exception as e:
                if not originates_in_library(e):
                    raise
                et, site = exc_site(e)
                ctx.judged(kind, nt)
                ctx.violation("%s/raised:%s@%s" % (key, et, site), "%s raised %s: %s" % (key, et, str(e)[:120]), dict(wit, config=key))
                return None

        # 1. whole read, lazy and eager
        whole = None
        for lazy in (True, False):
            t = guarded("decode", "read(lazy=%s)" % lazy, lambda: bnp.open(path, lazy=lazy).read())
            if t is None:
                continue
            lib = guarded("decode", "read(lazy=%s)/fields" % lazy, lambda: lib_records(t))
            if lib is None:
                continue
            bad = compare(lib, recs, refs)
            ctx.check("decode", bad is None, "decode/%s" % (bad[1] if bad else ""), "record %s field %s decoded as %r, specification says %r" % (bad or (0, 0, 0, 0)), dict(wit, lazy=lazy, bad=[str(x) for x in bad] if bad else None), nt and (nt, lazy))
            if lazy:
                whole = lib
        # 2. chunked reading for chunk sizes >= largest record
        if n:
            biggest = max(len(R2.encode_record(x)) for x in recs)
            ks = list(range(biggest, len(payload) + 3)) if (not ctx.quick and len(payload) - biggest <= 1200) else sorted(set([biggest, biggest + 1, biggest + 3, 2 * biggest, len(payload) - len(hdr), len(payload), len(payload) + 2] + [r.randint(biggest, len(payload) + 2) for _ in range(ctx.pick(6, 150))]))
            for k in ks:
                def chunked():
                    out = []
                    for c in bnp.open(path).read_chunks(min_chunk_size=k):
                        out += lib_records(c)
                    return out
                lib = guarded("chunked", "read_chunks", chunked)
                if lib is None:
                    continue
                bad = compare(lib, recs, refs)
                ctx.check("chunked", bad is None, "read_chunks/%s" % (bad[1] if bad else ""), "chunked read k=%d: record %s field %s = %r, expected %r" % ((k,) + (bad or (0, 0, 0, 0))), dict(wit, k=k, bad=[str(x) for x in bad] if bad else None), nt and (nt, k))
            # 2b. the chunk tables kept and joined afterwards, a column having been read on some of them only: the joined table decodes to the records of the file
            k = r.choice(ks)
            def joined_chunks():
                cs = list(bnp.open(path).read_chunks(min_chunk_size=k))
                if len(cs) >= 2 and r.random() < 0.7:
                    for c_ in cs[:r.randint(1, len(cs) - 1)]:
                        getattr(c_, r.choice(["name", "position", "sequence", "flag"]))
                return lib_records(np.concatenate(cs) if len(cs) > 1 else cs[0])
            lib = guarded("chunked", "np.concatenate(read_chunks)", joined_chunks)
            if lib is not None:
                bad = compare(lib, recs, refs)
                ctx.check("chunked", bad is None, "np.concatenate(read_chunks)/%s" % (bad[1] if bad else ""), "chunk tables (k=%d) joined: record %s field %s = %r, expected %r" % ((k,) + (bad or (0, 0, 0, 0))), dict(wit, k=k, bad=[str(x) for x in bad] if bad else None), nt and (nt, k, "joined"))
        # 2c. single records of a row selection of the eagerly read table, the row number a Python int or a NumPy integer
        if n >= 2:
            def single_rows():
                te = bnp.open(path, lazy=False).read()
                pick = [i_ for i_ in range(n) if i_ % 2 == 0]
                sub = te[np.array([i_ % 2 == 0 for i_ in range(n)])] if r.random() < 0.5 else te[np.array(pick)]
                out_ = []
                for j_ in range(len(pick)):
                    e_ = sub[np.int64(j_)] if j_ % 2 == 0 else sub[j_]
                    out_.append((str(e_.name.to_string() if hasattr(e_.name, "to_string") else e_.name), int(e_.position)))
                return out_, pick
            got_ = guarded("decode", "eager-selection[row]", single_rows)
            if got_ is not None:
                rows_, pick_ = got_
                want_ = [(recs[i_]["name"], recs[i_]["pos"]) for i_ in pick_]
                ctx.check("decode", rows_ == want_, "eager-selection[row]/name-or-position", "single rows of an eager row selection gave %r, expected %r" % (rows_[:3], want_[:3]), dict(wit, got=rows_[:6], expected=want_[:6]), nt and (nt, "rows"))
        # 3. reference intervals
        mapped = [x for x in recs]
        if n:
            exp_iv = [(x["pos"], x["pos"] + R2.ref_length(x["cigar"]), "-" if x["flag"] & 16 else "+", x["name"]) for x in recs]
            def ivb():
                t = bnp.open(path, buffer_type=BamIntervalBuffer).read()
                return list(zip(np.asarray(t.start).tolist(), np.asarray(t.stop).tolist(), [s for s in "".join(text_rows(t.strand))], text_rows(t.name)))
            got = guarded("interval", "BamIntervalBuffer", ivb)
            if got is not None:
                ctx.check("interval", got == exp_iv, "BamIntervalBuffer/interval", "BamIntervalBuffer gave %r expected %r" % (got[:3], exp_iv[:3]), dict(wit, got=[list(map(str, g)) for g in got[:5]]), nt and (nt, "ivb"))
            def a2i():
                t = alignment_to_interval(bnp.open(path, lazy=False).read())
                return list(zip(np.asarray(t.start).tolist(), np.asarray(t.stop).tolist(), [s for s in "".join(text_rows(t.strand))], text_rows(t.name)))
            got = guarded("interval", "alignment_to_interval", a2i)
            if got is not None:
                ctx.check("interval", got == exp_iv, "alignment_to_interval/interval", "alignment_to_interval gave %r expected %r" % (got[:3], exp_iv[:3]), dict(wit, got=[list(map(str, g)) for g in got[:5]]), nt and (nt, "a2i"))
        # 4. writing back: whole, filtered, reordered, repeated
        if True:
            sels = [("whole", list(range(n)), lambda t: t)]
            if n:
                sels += [("mask", [i for i in range(n) if i % 2 == 0], lambda t: t[np.arange(n) % 2 == 0]),
                         ("list-mask", [i for i in range(n) if i % 3 != 1], lambda t: t[[i % 3 != 1 for i in range(n)]]),
                         ("list-rows", [n - 1, 0], lambda t: t[[n - 1, 0]]),
                         ("slice", list(range(n))[1:], lambda t: t[1:]), ("reversed", list(range(n))[::-1], lambda t: t[::-1])]
                perm = r.sample(range(n), n)
                sels.append(("fancy", perm + perm[:1], lambda t: t[np.array(perm + perm[:1])]))
                # reordered: the rows of an adjacent run permuted with its first and last row left in place; a rotation and a block cut out,
                # expressed as a concatenation of two plain slices of the table
                if n >= 4:
                    a_ = r.randint(0, n - 4)
                    b_ = r.randint(a_ + 3, n - 1)
                    inner = list(range(a_ + 1, b_))
                    r.shuffle(inner)
                    run_ = [a_] + inner + [b_]
                    sels.append(("fancy-inner-permutation", run_, lambda t: t[np.array(run_)]))
                if n >= 2:
                    k_ = r.randint(1, n - 1)
                    sels.append(("rotation", list(range(k_, n)) + list(range(k_)), lambda t: np.concatenate([t[k_:], t[:k_]])))
                    c_ = r.randint(0, n - 1)
                    d_ = r.randint(c_ + 1, n)
                    sels.append(("block-cut-out", list(range(c_)) + list(range(d_, n)), lambda t: np.concatenate([t[:c_], t[d_:]])))
                # selections of selections
                evens = [i for i in range(n) if i % 2 == 0]
                sels.append(("nested", evens[::-1][:max(1, len(evens) - 1)], lambda t: t[np.arange(n) % 2 == 0][::-1][:max(1, len(evens) - 1)]))
                # a filter that selects nothing still gives a BAM (header, reference list, no records)
                sels.append(r.choice([("empty-mask", [], lambda t: t[np.zeros(n, dtype=bool)]), ("empty-slice", [], lambda t: t[n:]), ("empty-filter", [], lambda t: t[t.mapq > 300])]))
            for sname, idx, sel in sels:
                out = ctx.path("o.bam")
                state = {}

                def wr():
                    if r.random() < 0.4:
                        with bnp.open(path) as fh_:          # the reader is closed before anything is written (the records are in memory)
                            t = fh_.read()
                        ctx.count("tables_written_after_their_reader_was_closed")
                    else:
                        t = bnp.open(path).read()
                    st = sel(t)
                    touched = r.random() < 0.5
                    if touched:
                        getattr(st, r.choice(["name", "sequence", "cigar_op", "quality", "flag"]))     # a field parsed (offsets cached) before the write
                    with bnp.open(out, "w") as f:
                        f.write(st)
                    state["after"] = st
                    return open(out, "rb").read()
                res = guarded("write", "write:" + sname, wr)
                if res is None:
                    continue
                try:
                    res = R2.decode_bam(res)
                except Exception as e:      # the reference decoder cannot read what was written: not a BAM
                    ctx.check("write", False, "write:%s/output-is-not-a-bam" % ("empty-selection" if not idx else sname), "the file written from selection %s (%d records) is not decodable as BAM: %s %s" % (sname, len(idx), type(e).__name__, str(e)[:80]),
                              dict(wit, selection=sname, size=len(res)), nt and (nt, sname))
                    continue
                refs2, recs2 = res
                # writing must not disturb the table that was written: its fields still decode to the selected records
                def after():
                    return lib_records(state["after"])
                lib = guarded("write", "fields-after-write:" + sname, after)
                if lib is not None:
                    bad = compare(lib, [recs[i] for i in idx], refs)
                    ctx.check("write", bad is None, "fields-after-write:%s/%s" % ("selection" if sname != "whole" else "whole", bad[1] if bad else ""), "after writing selection %s its own fields read %r" % (sname, bad), dict(wit, selection=sname, bad=[str(x) for x in bad] if bad else None), nt and (nt, sname, "aw"))
                exp_raw = [R2.encode_record(recs[i]) for i in idx]
                got_raw = [x["raw"] for x in recs2]
                ctx.check("write", refs2 == refs and got_raw == exp_raw, "write:%s/records-differ" % sname, "BAM written from selection %s decodes to %d records (%d expected) / different bytes" % (sname, len(got_raw), len(exp_raw)),
                          dict(wit, selection=sname, idx=idx[:12], got_names=[x["name"][:20] for x in recs2][:8], expected_names=[recs[i]["name"][:20] for i in idx][:8]), nt and (nt, sname))
                # the written file is itself readable by the library and gives the same records
                def reread():
                    return lib_records(bnp.open(out).read())
                lib = guarded("write", "reread:" + sname, reread)
                if lib is not None:
                    bad = compare(lib, [recs[i] for i in idx], refs)
                    ctx.check("write", bad is None, "write:%s/reread-%s" % (sname, bad[1] if bad else ""), "re-reading the written BAM: %r" % (bad,), dict(wit, selection=sname), nt and (nt, sname, "rr"))
        for p in (path,):
            os.remove(p)

    for i in range(ctx.share(ctx.pick(480, 6000))):
        ctx.run_case(one, {"seed": rng.randrange(2 ** 40)})

    # realistic inputs: the repository's BAM files: library vs R2 decoder
    def example(case):
        p = os.path.join(REPO_ROOT, "example_data", case["file"])
        if not os.path.exists(p):
            return
        refs, recs = R2.decode_bam(open(p, "rb").read())
        lib = lib_records(bnp.open(p).read())
        bad = compare(lib, recs, refs)
        ctx.check("decode-example", bad is None, "decode-example/%s" % (bad[1] if bad else ""), "%s: %r" % (case["file"], bad), {"file": case["file"]}, (case["file"],))
    for i, fn in enumerate(["test.bam", "alignments.bam", "small_alignments.bam", "many_alignments.bam", "ctcf_chr21-22.bam"]):
        if i % ctx.nshards == ctx.shard:
            if fn in ("many_alignments.bam", "ctcf_chr21-22.bam") and ctx.quick:
                continue
            ctx.run_case(example, {"file": fn})
    ctx.sample({"n_refs": 2, "records": [{"ref_id": 1, "pos": 100, "name": "r1", "flag": 16, "cigar": [["M", 5], ["D", 2], ["S", 3]], "seq": "ACGTNACG", "qual": "8 ints"}], "cuts": "BGZF blocks cut inside the record"})
    ctx.floor("judged:decode", ctx.pick(100, 3000))
    ctx.floor("judged:chunked", ctx.pick(200, 10000))
    ctx.floor("judged:write", ctx.pick(200, 5000))
    ctx.floor("judged:interval", ctx.pick(50, 1000))


def replay(ctx, w):
    pass
