"""C12 — per-chromosome streaming never silently drops or misattributes entries.

Conservation / exactly-once checker over producer-consumer histories: every input entry carries a unique id (its start),
producer events are the contig groups fed (all ordered subsets of genome names + an unknown name + an ignored name, all
chunkings), consumer events are what each consumer hands back.  If a consumer COMPLETES, every entry of an included contig must
appear exactly once under its own contig, ignored contigs contribute nothing; otherwise an exception must have been raised.
"""
import itertools
import random

import numpy as np

RULE = ("genomes of <=3 (4 thorough) contigs plus one ignored ('_') contig; EVERY ordered sequence of distinct groups drawn from genome names + unknown name + ignored name "
        "(orders that disagree with the genome included), 1..2 uniquely tagged entries per group (entries of one contig contiguous), sampled chunkings incl. single-entry chunks; "
        "consumers: get_intervals(stream).compute(), .get_mask().get_data(), .get_pileup() per chromosome, .merged(), .clip(), get_track(stream), read_intervals(file, stream=True), "
        "MultiStream zipped with names / with lengths, jaccard, forbes, StreamedGeometry.get_pileup; one evaluation = one (genome, group sequence, chunking, consumer) history judged; "
        "distinct = that tuple; non-trivial = >= 2 groups")
ASSUMPTIONS = ["a completed evaluation is judged by conservation (each tagged entry exactly once, under its own contig); an exception is the only other allowed outcome for incompatible data",
               "for compatible data (known names, genome order) an exception is a violation of the first sentence of the statement"]
EXHAUSTIVE_CORE = "all ordered sequences of distinct contig groups over genome names + unknown + ignored, for each genome size"


def preload():
    import bionumpy  # noqa
    import bionumpy.genomic_data.genome_context, bionumpy.streams.multistream, bionumpy.streams.left_join, bionumpy.arithmetics.similarity_measures  # noqa


def chunkings(n, rng, k):
    """k cut sets for n entries (always: one chunk, all single-entry chunks)."""
    outs = [(), tuple(range(1, n))]
    for _ in range(k):
        outs.append(tuple(sorted(i for i in range(1, n) if rng.random() < 0.5)))
    seen, res = set(), []
    for c in outs:
        if c not in seen:
            seen.add(c)
            res.append(c)
    return res


def run(ctx):
    import bionumpy as bnp
    from bionumpy.datatypes import Interval, BedGraph
    from bionumpy.streams import NpDataclassStream, MultiStream
    from bionumpy.genomic_data.genome_context import ignore_underscores
    from bionumpy.genomic_data.geometry import StreamedGeometry
    from bionumpy.arithmetics.similarity_measures import jaccard, forbes
    from bnpmon.util import chrom_names
    from bnpmon.ctx import originates_in_library, exc_site
    import logging
    logging.disable(logging.CRITICAL)
    rng = ctx.rng
    SIZE = 1000

    def make_rows(groups):
        rows, nxt = [], 1
        for g in groups:
            for _ in range(1 + (sum(map(ord, g)) + len(groups)) % 4):      # 1..4 entries per contig: with single-entry chunks a contig spans up to 4 chunks
                rows.append((g, 10 * nxt, 10 * nxt + 3))   # unique start = id; entries never touch
                nxt += 1
        return rows

    coded_labels = [None]

    def table(rows):
        names_ = [r[0] for r in rows]
        if coded_labels[0] is not None and rows:
            # the chromosome column held as codes of a label encoding (what Genome.get_intervals(table).data and as_stream() hold) instead of text
            from bionumpy.encodings.string_encodings import StringEncoding
            labels = list(coded_labels[0]) + sorted(set(names_) - set(coded_labels[0]))
            names_ = bnp.as_encoded_array(names_, StringEncoding(labels))
            ctx.count("tables_with_coded_chromosome_column")
        return Interval(names_, np.array([r[1] for r in rows], dtype=int), np.array([r[2] for r in rows], dtype=int))

    def stream(rows, cuts):
        t = table(rows)
        bounds = [0] + list(cuts) + [len(rows)]
        pieces = [t[a:b] for a, b in zip(bounds[:-1], bounds[1:])]
        return NpDataclassStream(iter(pieces), dataclass=Interval)

    def judge(consumer, case, outcome, got_rows, expected_rows, valid, why_invalid):
        """got_rows: list of (contig, start, stop) the consumer attributed; None when only totals are observable."""
        key = (tuple(case["genome"]), tuple(case["groups"]), tuple(case["cuts"]), consumer)
        nt = key if len(case["groups"]) >= 2 else None
        if outcome[0] == "raised":
            if valid:
                ctx.check(consumer, False, "%s/raised-on-compatible-data:%s@%s" % (consumer, outcome[1], outcome[2]), "%s raised %s although the data is compatible with the genome: %s" % (consumer, outcome[1], outcome[3]),
                          dict(case, consumer=consumer), nt)
            else:
                ctx.judged(consumer, nt)
                ctx.count("raised_on_incompatible")
            return
        conserved = sorted(got_rows) == sorted(expected_rows)
        if valid:
            ctx.check(consumer, conserved, "%s/entries-lost-or-misattributed:compatible-data" % consumer, "%s completed but handed back %r, expected %r" % (consumer, sorted(got_rows)[:6], sorted(expected_rows)[:6]),
                      dict(case, consumer=consumer, got=sorted(got_rows), expected=sorted(expected_rows)), nt)
            ctx.count("completed_compatible")
        else:
            # completing on incompatible data is only acceptable if nothing was lost or misattributed (it never is for these consumers)
            ctx.check(consumer, conserved, "%s/completed-silently:%s" % (consumer, why_invalid), "%s completed on incompatible data (%s) and left out/misattributed entries: got %r, fed %r" % (consumer, why_invalid, sorted(got_rows)[:6], sorted(expected_rows)[:6]),
                      dict(case, consumer=consumer, got=sorted(got_rows), expected=sorted(expected_rows), why=why_invalid), nt)
            if conserved:
                ctx.observe("completed-on-incompatible-data-with-all-entries-conserved:%s" % consumer, case)

    def attempt(fn):
        try:
            return ("ok", fn())
        except Exception as e:
            if not originates_in_library(e) and not type(e).__name__ in ("GenomeError", "StreamError"):
                raise
            et, site = exc_site(e)
            return ("raised", et, site, str(e)[:120])

    def rows_of(data):
        return list(zip(chrom_names(data.chromosome), np.asarray(data.start).tolist(), np.asarray(data.stop).tolist()))

    def one(case):
        names, groups, cuts = case["genome"], case["groups"], case["cuts"]
        if case.get("long_names"):
            # contig names longer than 8 characters that share their first 8 (scaffold-style names)
            lng = lambda n: n if n in ("chr9_alt", "chrM") else "chromosome00" + n
            names, groups = [lng(n) for n in names], [lng(g) for g in groups]
            case = dict(case, genome=names, groups=groups)
        if case.get("punct") and not case.get("long_names"):
            # contig names with punctuation other than '_' (accession versions, HLA alleles, scaffold numbers): ordinary contigs for every filter
            pn = {"chr2": "KI270728.1", "chr3": "HLA-A", "chr4": "scaffold-12", "chrX": "X.1"}
            names, groups = [pn.get(n, n) for n in names], [pn.get(g, g) for g in groups]
            case = dict(case, genome=names, groups=groups)
        ignored = "chr9_alt"
        sizes = {n: SIZE for n in names}
        sizes_with_ignored = dict(sizes)
        sizes_with_ignored[ignored] = SIZE
        if case.get("no_filter"):
            # a genome made without a filter: the '_' contig is an ordinary contig (the last one) and receives its entries like the others
            genome = bnp.Genome.from_dict(sizes_with_ignored) if len(names) % 2 else bnp.Genome(sizes_with_ignored, filter_function=None)
            names = names + [ignored]
            sizes = dict(sizes_with_ignored)
            case = dict(case, genome=names)
            ignored_names = set()
            ctx.count("genomes_without_a_filter")
        else:
            genome = bnp.Genome.from_dict(sizes_with_ignored, filter_function=ignore_underscores)
            ignored_names = {ignored}
        genome0 = None
        if case.get("extra_ignored"):
            # a second way of ignoring contigs: names added afterwards; the contigs ignored by the filter must stay ignored
            genome0 = genome
            sizes_before = dict(sizes_with_ignored)
            genome = genome.with_ignored_added(["chrM"])
            ignored_names.add("chrM")
            # deriving a tolerant genome leaves the caller's size table (and genomes made from it later) as they were
            ctx.check("with_ignored_added", dict(sizes_with_ignored) == sizes_before and list(sizes_with_ignored) == list(sizes_before), "with_ignored_added/changed-the-callers-size-table", "the size table handed to the genome was %r and is %r after with_ignored_added(['chrM'])" % (sizes_before, dict(sizes_with_ignored)),
                      dict(case, before=sizes_before, after=dict(sizes_with_ignored)), None)
            later = bnp.Genome.from_dict(sizes_with_ignored, filter_function=None if case.get("no_filter") else ignore_underscores)
            ctx.check("with_ignored_added", "chrM" not in later.get_genome_context().chrom_sizes and list(later.get_genome_context().chrom_sizes) == list(genome0.get_genome_context().chrom_sizes), "with_ignored_added/a-genome-made-later-from-the-same-table-differs",
                      "a genome made from the same size table afterwards has contigs %r, the first one had %r" % (list(later.get_genome_context().chrom_sizes), list(genome0.get_genome_context().chrom_sizes)), dict(case), None)
        rows = make_rows(groups)
        cuts = [c_ for c_ in cuts if 0 < c_ < len(rows)]          # renamed contigs change the number of entries: no cut beyond the last entry (no empty chunks)
        case = dict(case, cuts=cuts)
        # a quarter of the cases hold the chromosome column as codes; the label list is the genome's (other genomes, in other orders, come before and after in the same process)
        coded_labels[0] = list(sizes_with_ignored) if case.get("coded") else None
        included = [r for r in rows if r[0] in names]
        unknown = [g for g in groups if g not in names and g not in ignored_names]
        order = [g for g in groups if g in names]
        in_order = order == sorted(order, key=names.index)
        valid = not unknown and in_order
        why = ""
        if not valid:
            # first group that makes the sequence incompatible, and whether the last genome contig's data came before it
            seen_inc, off = [], None
            for gi_, g in enumerate(groups):
                if g in ignored_names:
                    continue
                if g not in names:
                    off, kind = gi_, "unknown-contig"
                    break
                if seen_inc and names.index(g) < names.index(seen_inc[-1]):
                    off, kind = gi_, "order-disagrees-with-genome"
                    break
                seen_inc.append(g)
            why = "%s:%s" % (kind, "after-last-contig" if names[-1] in groups[:off] else "earlier")
        mk = lambda: stream(rows, cuts)

        def c_compute():
            return rows_of(genome.get_intervals(mk()).compute().get_data())

        def c_mask():
            d = genome.get_intervals(mk()).get_mask().get_data()
            d = d.compute() if hasattr(d, "compute") and not hasattr(d, "chromosome") else d
            return rows_of(d)

        def c_pileup():
            d = genome.get_intervals(mk()).get_pileup().get_data()
            d = d.compute() if hasattr(d, "compute") and not hasattr(d, "chromosome") else d
            vals = np.asarray(d.value).tolist()
            return [r for r, v in zip(rows_of(d), vals) if v != 0]

        def c_merged():
            return rows_of(genome.get_intervals(mk()).merged(1).compute().get_data())

        def c_clip():
            return rows_of(genome.get_intervals(mk()).clip().compute().get_data())

        def c_track():
            t = table(rows)
            bg = BedGraph(t.chromosome, t.start, t.stop, np.arange(1, len(rows) + 1, dtype=int))
            bounds = [0] + list(cuts) + [len(rows)]
            st = NpDataclassStream(iter([bg[a:b] for a, b in zip(bounds[:-1], bounds[1:])]), dataclass=BedGraph)
            tr = genome.get_track(st)
            d = tr.get_data()
            d = d.compute() if hasattr(d, "compute") and not hasattr(d, "chromosome") else d
            vals = np.asarray(d.value).tolist()
            return [r for r, v in zip(rows_of(d), vals) if v != 0]

        def c_file():
            p = ctx.path("c12.bed")
            with open(p, "w") as f:
                for r in rows:
                    f.write("%s\t%d\t%d\n" % r)
            return rows_of(genome.read_intervals(p, stream=True).compute().get_data())

        def c_file_track():
            p = ctx.path("c12.bdg")
            with open(p, "w") as f:
                for i_, r_ in enumerate(rows):
                    f.write("%s\t%d\t%d\t%d\n" % (r_[0], r_[1], r_[2], i_ + 1))
            d = genome.read_track(p, stream=True).get_data()
            d = d.compute() if hasattr(d, "compute") and not hasattr(d, "chromosome") else d
            vals = np.asarray(d.value).tolist()
            return [r_ for r_, v in zip(rows_of(d), vals) if v != 0]

        consumers = [("get_intervals.compute", c_compute), ("get_mask.get_data", c_mask), ("get_pileup.get_data", c_pileup), ("merged.compute", c_merged), ("clip.compute", c_clip), ("get_track.get_data", c_track)]
        if not cuts:
            consumers.append(("read_intervals(stream=True).compute", c_file))
            consumers.append(("read_track(stream=True).get_data", c_file_track))
        for cname, fn in consumers:
            out = attempt(fn)
            judge(cname, case, out, out[1] if out[0] == "ok" else None, included, valid, why)

        if valid and included:
            # one streamed object evaluated in two steps (a summary first, the data afterwards): a stream is read once, so the second step may refuse;
            # if it completes, every entry is there under its own contig
            def two_steps():
                gi_ = genome.get_intervals(mk())
                bnp.compute(gi_.start)
                c2, s2 = bnp.compute((gi_.chromosome, gi_.stop))
                return list(zip(chrom_names(c2), np.asarray(s2).tolist()))
            out = attempt(two_steps)
            key2 = (tuple(case["genome"]), tuple(case["groups"]), tuple(case["cuts"]), "two-steps")
            if out[0] == "ok":
                want2 = [(r_[0], r_[2]) for r_ in included]
                ctx.check("two-step-evaluation", sorted(out[1]) == sorted(want2), "get_intervals.compute-in-two-steps/entries-lost-or-misattributed", "the second evaluation of one streamed interval set completed with %r, the entries are %r" % (sorted(out[1])[:6], sorted(want2)[:6]),
                          dict(case, got=sorted(out[1]), expected=sorted(want2)), key2 if len(case["groups"]) >= 2 else None)
            else:
                ctx.judged("two-step-evaluation", key2 if len(case["groups"]) >= 2 else None)
                ctx.count("second_evaluation_refused")
        if genome0 is not None and "chrM" in groups:
            # the genome the tolerant one was derived from is still strict: chrM is unknown to it, so it must raise (or conserve every entry)
            out = attempt(lambda: rows_of(genome0.get_intervals(mk()).compute().get_data()))
            judge("original-genome-after-with_ignored_added.compute", case, out, out[1] if out[0] == "ok" else None, [r for r in rows if r[0] != ignored], False, "unknown-contig:derived-genome-ignores-it")
        # ---- MultiStream (no ignored names there: every name must be in the contig order) ----
        ms_rows = [r for r in rows if r[0] not in ignored_names]
        ms_unknown = [g for g in groups if g not in names and g not in ignored_names]
        ms_groups = [g for g in groups if g not in ignored_names]
        if ms_rows:
            ms_valid = not ms_unknown and in_order
            bounds = [0] + [c for c in cuts if c < len(ms_rows)] + [len(ms_rows)]
            def ms_stream():
                t = table(ms_rows)
                return NpDataclassStream(iter([t[a:b] for a, b in zip(bounds[:-1], bounds[1:]) if b > a]), dataclass=Interval)

            def m_names_first():
                ms = MultiStream(sizes, a=ms_stream())
                out = []
                for n, chunk in zip(ms.sequence_names, ms.a):
                    out += [(str(n), s, e) for (_, s, e) in rows_of(chunk)]
                    bad = [c for c in chrom_names(chunk.chromosome) if c != str(n)]
                    if bad:
                        out += [("MISATTRIBUTED:" + str(n), -1, -1)]
                return out

            def m_data_first():
                ms = MultiStream(sizes, a=ms_stream())
                out = []
                for chunk, (n, L) in zip(ms.a, zip(names, ms.lengths)):
                    out += [(str(n), s, e) for (_, s, e) in rows_of(chunk)]
                    bad = [c for c in chrom_names(chunk.chromosome) if c != str(n)]
                    if bad:
                        out += [("MISATTRIBUTED:" + str(n), -1, -1)]
                return out
            def m_dict_source():
                # dict-like per-contig source (documented use); contigs without entries have no key
                t = table(ms_rows)
                cn = chrom_names(t.chromosome)
                d = {}
                for g in ms_groups:
                    if g in names:          # keys outside the contig list are simply never looked up: not part of this history
                        d[g] = t[np.array([c == g for c in cn], dtype=bool)]
                ms = MultiStream(sizes, a=d)
                out = []
                for n, chunk in zip(ms.sequence_names, ms.a):
                    out += [(str(n), s_, e_) for (_, s_, e_) in rows_of(chunk)]
                    if any(c != str(n) for c in chrom_names(chunk.chromosome)):
                        out += [("MISATTRIBUTED:" + str(n), -1, -1)]
                return out
            out = attempt(m_dict_source)
            if out[0] == "raised":
                ctx.judged("MultiStream(dict-source)", None)      # a dict that does not cover every contig (or names an unknown one) may be refused
                ctx.count("dict_source_raised")
            else:
                judge("MultiStream(dict-source)", dict(case, groups=ms_groups), out, out[1], [r for r in ms_rows if r[0] in names], set(names) <= set(ms_groups), "dict-source-does-not-cover-the-contig-list")
            def m_table():
                # the data handed over as one in-memory table instead of a stream: same contract
                ms = MultiStream(sizes, a=table(ms_rows))
                out = []
                for n, chunk in zip(ms.sequence_names, ms.a):
                    out += [(str(n), s_, e_) for (_, s_, e_) in rows_of(chunk)]
                    if any(c != str(n) for c in chrom_names(chunk.chromosome)):
                        out += [("MISATTRIBUTED:" + str(n), -1, -1)]
                return out
            exp_ms = [r for r in ms_rows]
            for cname, fn in (("MultiStream.zip(names,data)", m_names_first), ("MultiStream.zip(data,lengths)", m_data_first), ("MultiStream(in-memory-table)", m_table)):
                out = attempt(fn)
                judge(cname, dict(case, groups=ms_groups), out, out[1] if out[0] == "ok" else None, exp_ms, ms_valid, why or "unknown-contig")
            # jaccard / forbes of the stream with itself-shifted: value must equal the model or raise
            if case.get("similarity"):
                b_rows = [(n, 5, 25) for n in names]
                def sim(fn):
                    return fn(sizes, ms_stream(), table(b_rows))
                cov_a = {n: np.zeros(SIZE, bool) for n in names}
                for c, s, e in ms_rows:
                    if c in cov_a:
                        cov_a[c][s:e] = True
                cov_b = {n: np.zeros(SIZE, bool) for n in names}
                for c, s, e in b_rows:
                    cov_b[c][s:e] = True
                A = np.concatenate([cov_a[n] for n in names]); B = np.concatenate([cov_b[n] for n in names])
                a_, b_, c_, d_ = int((A & B).sum()), int((A & ~B).sum()), int((~A & B).sum()), int((~A & ~B).sum())
                N = a_ + b_ + c_ + d_
                for cname, fn, expv in (("jaccard", jaccard, a_ / (N - d_) if N - d_ else None), ("forbes", forbes, a_ * N / ((a_ + b_) * (a_ + c_)) if (a_ + b_) * (a_ + c_) else None)):
                    if expv is None:
                        continue
                    out = attempt(lambda: sim(fn))
                    key = (tuple(names), tuple(ms_groups), tuple(cuts), cname)
                    if out[0] == "raised":
                        ctx.check(cname, not ms_valid, "%s/raised-on-compatible-data:%s@%s" % (cname, out[1], out[2]), "%s raised on compatible data: %s" % (cname, out[3]), dict(case, consumer=cname), key)
                    else:
                        ok = abs(out[1] - expv) < 1e-9
                        ctx.check(cname, ok or False, "%s/%s" % (cname, "wrong-value:compatible-data" if ms_valid else "completed-silently:" + (why or "unknown-contig")),
                                  "%s completed with %r, per-base model over ALL fed entries gives %r" % (cname, out[1], expv), dict(case, consumer=cname, got=out[1], expected=expv), key)
        # ---- StreamedGeometry.get_pileup (left join) ------------------------------------------------
        if case.get("geometry") and ms_rows:
            def sg():
                # StreamedGeometry.get_pileup itself returns NotImplemented on this code base (abstract from_stream);
                # its joining step is driven directly
                from bionumpy.streams.left_join import left_join
                from bionumpy.streams import groupby
                out = []
                for name, size, data in left_join(sizes.items(), groupby(ms_stream(), "chromosome")):
                    if data is not None:
                        out += [(name, s, e) for (c, s, e) in rows_of(data)]
                        if any(c != name for c, _, _ in rows_of(data)):
                            out.append(("MISATTRIBUTED:" + name, -1, -1))
                return out
            try:
                r = StreamedGeometry(sizes).get_pileup(ms_stream())
                if r is NotImplemented:
                    ctx.observe("StreamedGeometry.get_pileup-returns-NotImplemented")
            except Exception:
                pass
            out = attempt(sg)
            judge("left_join(sizes,groupby(stream))", dict(case, groups=ms_groups), out, out[1] if out[0] == "ok" else None, ms_rows, not ms_unknown and in_order, why or "unknown-contig")

    # ---- enumerate producers ----------------------------------------------------------------------
    cases = []
    maxc = ctx.pick(3, 4)
    for nc in range(1, maxc + 1):
        names = ["chr%d" % (i + 1) for i in range(nc)]
        pool = names + ["chrX", "chr9_alt"]
        for k in range(1, len(pool) + 1):
            for seq in itertools.permutations(pool, k):
                cases.append((names, list(seq)))
    extra = []
    for names, groups in cases:
        if len(groups) <= 3 and "chrX" not in groups:
            for pos in range(len(groups) + 1):
                extra.append((names, groups[:pos] + ["chrM"] + groups[pos:], True))
    cases = [(n_, g_, False) for n_, g_ in cases] + extra
    gen = random.Random(ctx.seed + 12)
    for idx, (names, groups, extra_ignored) in enumerate(cases):
        if idx % ctx.nshards != ctx.shard:
            continue
        n_entries = len(make_rows(groups))
        for ci, cuts in enumerate(chunkings(n_entries, gen, ctx.pick(1, 4))):
            ctx.run_case(one, {"genome": names, "groups": groups, "cuts": list(cuts), "similarity": ci == 0, "geometry": ci < 2, "extra_ignored": extra_ignored, "long_names": (idx + ci) % 3 == 0, "no_filter": (idx + 2 * ci) % 4 == 1, "coded": (idx + 3 * ci) % 4 == 2, "punct": (idx + ci) % 3 == 1})
    coded_labels[0] = None
    # ---- contigs that add up to more than 2**31 positions: the per-contig counts are summed over the genome ---------------------------
    def big_similarity(case):
        r = random.Random(case["seed"])
        names = ["chr1", "chr2", "chr3", "chr4"][:r.randint(3, 4)]
        sizes = {n: r.choice([10 ** 9, 900_000_000, 2 ** 30]) for n in names}
        A, B = [], []
        for n in names:
            for rowsX in (A, B):
                if r.random() < 0.8:
                    a = r.randrange(0, sizes[n] - 10)
                    rowsX.append((n, a, min(sizes[n], a + r.choice([5, 10 ** 6, 5 * 10 ** 8]))))
        if not A or not B:
            return
        both = sum(max(0, min(a[2], b[2]) - max(a[1], b[1])) for a in A for b in B if a[0] == b[0])
        la, lb, N = sum(x[2] - x[1] for x in A), sum(x[2] - x[1] for x in B), sum(sizes.values())
        a_, b_, c_ = both, la - both, lb - both
        ta = table(A)
        st = NpDataclassStream(iter([ta[:1], ta[1:]] if len(ta) > 1 else [ta]), dataclass=Interval)
        wit = {"sizes": sizes, "a": A, "b": B, "seed": case["seed"]}
        for cname, fn, expv in (("jaccard", jaccard, a_ / (a_ + b_ + c_) if a_ + b_ + c_ else None), ("forbes", forbes, a_ * N / ((a_ + b_) * (a_ + c_)) if (a_ + b_) * (a_ + c_) else None)):
            if expv is None:
                continue
            src = st if cname == "jaccard" else table(A)
            out = attempt(lambda: fn(sizes, src, table(B)))
            if out[0] == "raised":
                ctx.check(cname, False, "%s/raised-on-compatible-data:%s@%s" % (cname, out[1], out[2]), "%s raised on compatible data: %s" % (cname, out[3]), wit, None)
            else:
                ctx.check(cname, abs(out[1] - expv) <= 1e-9 * max(1.0, abs(expv)), "%s/wrong-value:genome-beyond-2**31" % cname, "%s over %.1f Gb = %r, interval arithmetic gives %r" % (cname, N / 1e9, out[1], expv), dict(wit, got=out[1], expected=expv), (cname, case["seed"]))
    for i in range(ctx.pick(3, 160)):
        ctx.run_case(big_similarity, {"seed": ctx.seed * 5003 + ctx.shard * 17 + i})

    ctx.sample({"genome": ["chr1", "chr2", "chr3"], "groups": ["chr3", "chr2"], "cuts": [1], "meaning": "entries fed in groups chr3 then chr2 as 2 chunks; every consumer must raise or hand back all entries"})
    ctx.floor("completed_compatible", ctx.pick(200, 2000))
    ctx.floor("raised_on_incompatible", ctx.pick(200, 2000))


def replay(ctx, w):
    pass
