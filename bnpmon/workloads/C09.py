"""C09 — genomic arrays are exact, lossless views of dense per-base arrays.

Expression-tree monitor: random expression trees are evaluated on GenomicArray objects and on dense NumPy arrays (dict per
chromosome); construction, to_dict, reductions, histogram and back-conversion (get_data) are compared.  The path monitor (M1)
reports which constructor branches (prefix/postfix/gap/touching combinations) were actually taken.
"""
import random
import re

import math
import numpy as np

RULE = ("genomes of 1..4 chromosomes (sizes 1..8 quick / 1..60 thorough); per chromosome a sorted non-overlapping bedGraph drawn from every combination of "
        "{empty, starts at 0, ends at size, interior gaps (incl. 1 bp), touching records, single-base records} with int/float/bool values, and interval sets (mask, pileup); "
        "expression trees of depth <=2 (4) over {+,-,*,<,>,==,&,|,~, scalar operands on either side, two-array operands}; np.sum, np.histogram(bins, range), get_data(); "
        "one evaluation = one (genome, tracks, expression) compared on every base; distinct = (genome, records, expression); non-trivial = genome has >=2 chromosomes or >=2 records")
ASSUMPTIONS = ["dense NumPy arrays built from the records are the reference (R3); ints/bools compared exactly, floats with allclose(rtol=1e-12) except construction/to_dict which is exact"]
EXHAUSTIVE_CORE = None


def preload():
    import bionumpy  # noqa
    import bionumpy.genomic_data.genomic_track, bionumpy.genomic_data.genome, bionumpy.arithmetics.intervals  # noqa


def gen_records(rng, size, kind):
    """sorted non-overlapping (start, stop, value) on [0,size)"""
    recs = []
    mode = rng.choice(["empty", "full", "random", "random", "random", "touching", "single"])
    if mode == "empty" or size == 0:
        return []
    pos = 0 if rng.random() < 0.5 else rng.randint(0, max(0, size - 1))
    while pos < size:
        if mode == "single":
            ln = 1
        elif mode == "full":
            ln = rng.randint(1, size - pos)
        else:
            ln = rng.randint(1, max(1, (size - pos) // 2 + 1))
        stop = min(size, pos + ln)
        v = {"int": rng.randint(-3, 9) if rng.random() < 0.97 else rng.choice([3_000_000_000_000_001, -(2 ** 55) - 1, 2 ** 53 + 1]), "float": rng.choice([0.5, 1.5, 2.3, 0.9, -1.25, 3.0, 0.1]), "bool": True}[kind]
        recs.append((pos, stop, v))
        if rng.random() < 0.15:
            break
        gap = 0 if mode in ("touching", "full") else rng.choice([0, 0, 1, 1, 2, rng.randint(0, 4)])
        if mode == "full" and rng.random() < 0.5:
            gap = 0
        pos = stop + gap
    if rng.random() < 0.4 and recs and recs[-1][1] < size:
        recs[-1] = (recs[-1][0], size, recs[-1][2])
    # merge-equal adjacent values are still legal input; keep as is
    return recs


def dense(recs, size, kind):
    dt = {"int": int, "float": float, "bool": bool}[kind]
    a = np.zeros(size, dtype=dt)
    for s, e, v in recs:
        a[s:e] = v
    return a


def gen_expr(rng, depth, leaves, want="any"):
    """expression tree: ('leaf', i) | ('scalar', v) | (op, a, b) | ('~', a); returns (tree, type)"""
    num_leaves = [i for i, k in enumerate(leaves) if k in ("int", "float")]
    bool_leaves = [i for i, k in enumerate(leaves) if k == "bool"]
    def num(d):
        if bool_leaves and rng.random() < 0.12:
            # a mask used as a number: mask * 1, mask + 0, 2 * mask (NumPy promotes the booleans to integers / floats)
            lf, sc = ("leaf", rng.choice(bool_leaves)), ("scalar", rng.choice([1, 0, 1, 2, 1.0]))
            op = rng.choice(["*", "+"])
            return (op, lf, sc) if rng.random() < 0.7 else (op, sc, lf)
        if d == 0 or rng.random() < 0.3:
            if not num_leaves:
                return None
            return ("leaf", rng.choice(num_leaves))
        op = rng.choice(["+", "-", "*"])
        a = num(d - 1)
        if a is None:
            return None
        r = rng.random()
        if r < 0.35:
            return (op, a, ("scalar", rng.choice([0, 1, 2, -1, 0.5, 3])))
        if r < 0.55:
            return (op, ("scalar", rng.choice([1, 2, 5, 0.5])), a)
        b = num(d - 1)
        return (op, a, b) if b is not None else a
    def boolean(d):
        r = rng.random()
        if d == 0 or r < 0.2:
            if bool_leaves and (rng.random() < 0.6 or not num_leaves):
                return ("leaf", rng.choice(bool_leaves))
            a = num(0)
            if a is None:
                return None
            return (rng.choice(["<", ">", "=="]), a, ("scalar", rng.choice([0, 1, 2, 0.5])))
        if r < 0.5 and num_leaves:
            a = num(d - 1)
            q = rng.random()
            if q < 0.5:
                return (rng.choice(["<", ">", "=="]), a, ("scalar", rng.choice([0, 1, 2, 0.9, 2.3])))
            if q < 0.65:
                return (rng.choice(["<", ">"]), ("scalar", rng.choice([0, 1, 2])), a)
            b = num(d - 1)
            return (rng.choice(["<", ">", "=="]), a, b)
        if r < 0.65:
            a = boolean(d - 1)
            return ("~", a) if a is not None else None
        a, b = boolean(d - 1), boolean(d - 1)
        if a is None or b is None:
            return a or b
        return (rng.choice(["&", "|"]), a, b)
    if want == "num" or (want == "any" and rng.random() < 0.5):
        t = num(depth)
        if t is not None:
            return t, "num"
    t = boolean(depth)
    if t is not None:
        return t, "bool"
    t = num(depth)
    return (t, "num") if t is not None else (None, None)


def evaluate(tree, leaves):
    k = tree[0]
    if k == "leaf":
        return leaves[tree[1]]
    if k == "scalar":
        return tree[1]
    if k == "~":
        return ~evaluate(tree[1], leaves)
    a, b = evaluate(tree[1], leaves), evaluate(tree[2], leaves)
    if k == "+":
        return a + b
    if k == "-":
        return a - b
    if k == "*":
        return a * b
    if k == "<":
        return a < b
    if k == ">":
        return a > b
    if k == "==":
        return a == b
    if k == "&":
        return a & b
    if k == "|":
        return a | b
    raise ValueError(k)


def show(tree):
    k = tree[0]
    if k == "leaf":
        return "t%d" % tree[1]
    if k == "scalar":
        return repr(tree[1])
    if k == "~":
        return "~(%s)" % show(tree[1])
    return "(%s %s %s)" % (show(tree[1]), k, show(tree[2]))


def run(ctx):
    from bnpmon.util import lazy_selection
    from bnpmon.ctx import originates_in_library
    import bionumpy as bnp
    from bionumpy.datatypes import BedGraph, Interval
    rng = ctx.rng
    maxsize = ctx.pick(8, 60)
    depth = ctx.pick(2, 4)

    def same(got, exp, exact):
        got, exp = np.asarray(got), np.asarray(exp)
        if got.shape != exp.shape:
            return False
        if exp.dtype == bool or got.dtype == bool:
            return bool(np.array_equal(got.astype(bool), exp.astype(bool))) and (got.dtype == bool) == (exp.dtype == bool)
        if exact or (np.issubdtype(exp.dtype, np.integer) and np.issubdtype(got.dtype, np.integer)):
            return bool(np.array_equal(got, exp))
        return bool(np.allclose(got, exp, rtol=1e-12, atol=0))

    def one(case):
        r = random.Random(case["seed"])
        nchrom = r.randint(1, 4)
        names = r.sample(["chr1", "chr2", "chr10", "chr1_alt", "chrX", "chrUn_1"], nchrom)
        sizes = {n: r.randint(1, maxsize) for n in names}
        genome = bnp.Genome.from_dict(sizes)
        if r.random() < 0.3 and any("_" not in n for n in names):
            # contigs with '_' in the size table that the genome ignores: they are not part of any array (their sizes must not leak into lengths or reductions)
            from bionumpy.genomic_data.genome_context import ignore_underscores
            genome = bnp.Genome.from_dict(sizes, filter_function=ignore_underscores)
            names = [n for n in names if "_" not in n]
            ctx.count("genomes_with_ignored_contigs")
        kinds = [r.choice(["int", "float", "bool", "int"]) for _ in range(r.randint(1, 3))]
        tracks, denses, recs_all = [], [], []
        for kind in kinds:
            recs = {n: gen_records(r, sizes[n], kind) for n in names}
            recs_all.append(recs)
            d = {n: dense(recs[n], sizes[n], kind) for n in names}
            flat = [(n, s, e, v) for n in names for (s, e, v) in recs[n]]
            if kind == "bool":
                # boolean arrays come from interval sets (mask); add overlapping/duplicate intervals freely
                iv = [(n, s, e) for n, s, e, v in flat]
                extra = [(n, s, e) for (n, s, e) in iv if r.random() < 0.3]
                # intervals sharing a start with another one but ending elsewhere (listed after it), nested and overhanging ones
                for (n, s, e) in list(iv):
                    if r.random() < 0.25:
                        extra.append((n, s, r.randint(s + 1, sizes[n])))
                    if r.random() < 0.1:
                        a = r.randint(0, sizes[n] - 1)
                        extra.append((n, a, r.randint(a + 1, sizes[n])))
                for n in names:
                    d[n] = np.zeros(sizes[n], dtype=bool)
                for (n, s, e) in iv + extra:
                    d[n][s:e] = True
                iv2 = sorted(iv, key=lambda t: (names.index(t[0]), t[1])) + extra
                iv2.sort(key=lambda t: (names.index(t[0]), t[1]))      # stable: among equal starts the later-listed (often longer) ones stay later
                if r.random() < 0.5:
                    r.shuffle(iv2)          # interval sets need not be sorted or grouped by chromosome
                mk_iv = lambda rows: Interval([x[0] for x in rows], np.array([x[1] for x in rows], dtype=int), np.array([x[2] for x in rows], dtype=int))
                t = mk_iv(iv2)
                if iv2 and r.random() < 0.3:
                    t, _ = lazy_selection(mk_iv, iv2, r, lambda: (names[0], 0, 1))      # a lazy row selection of a bigger table
                    ctx.count("lazy_selection_operands")
                ga = genome.get_intervals(t).get_mask()
            else:
                vals = np.array([v for n, s, e, v in flat], dtype=(int if kind == "int" else float))
                mk_bg = lambda rows: BedGraph([x[0] for x in rows], np.array([x[1] for x in rows], dtype=int), np.array([x[2] for x in rows], dtype=int), np.array([x[3] for x in rows], dtype=(int if kind == "int" else float)))
                bg = mk_bg(flat)
                if flat and r.random() < 0.3:
                    bg, _ = lazy_selection(mk_bg, flat, r, lambda: (names[0], 0, 1, 1))
                    ctx.count("lazy_selection_operands")
                ga = genome.get_track(bg)
                if flat and r.random() < 0.25 and kind == "int":
                    # the same records written to a bedGraph file and read by the genome, in memory and as a stream
                    bpath = ctx.path("t.bdg")
                    with open(bpath, "w") as fh:
                        for n_, s_, e_, v_ in flat:
                            fh.write("%s\t%d\t%d\t%d\n" % (n_, s_, e_, v_))
                    ft = genome.read_track(bpath)
                    tdf = ft.to_dict()
                    okf = all(np.array_equal(np.asarray(tdf[n_]), d[n_]) for n_ in names)
                    ctx.check("construct+to_dict:file", okf, "read_track(file)/to_dict-differs-from-dense", "read_track of the written bedGraph differs from the dense arrays", {"sizes": sizes, "records": flat}, (tuple(sizes.items()), tuple(flat), "file"))
                    stt = genome.read_track(bpath, stream=True)
                    dd_ = stt.get_data()
                    dd_ = dd_.compute() if hasattr(dd_, "compute") and not hasattr(dd_, "chromosome") else dd_
                    got_f = [(c_, a_, b_, v_) for c_, a_, b_, v_ in zip([str(x) for x in dd_.chromosome.tolist()], np.asarray(dd_.start).tolist(), np.asarray(dd_.stop).tolist(), np.asarray(dd_.value).tolist()) if v_ != 0]
                    dm_ = ft.get_data()
                    exp_f = [(c_, a_, b_, v_) for c_, a_, b_, v_ in zip([str(x) for x in dm_.chromosome.tolist()], np.asarray(dm_.start).tolist(), np.asarray(dm_.stop).tolist(), np.asarray(dm_.value).tolist()) if v_ != 0]
                    ctx.check("construct+to_dict:file", got_f == exp_f, "read_track(file,stream=True)/records-differ-from-in-memory", "streamed read_track gives %r, in memory %r" % (got_f[:4], exp_f[:4]), {"sizes": sizes, "records": flat}, (tuple(sizes.items()), tuple(flat), "file-stream"))
                if flat and r.random() < 0.3:
                    # the same bedGraph as a stream of two chunks: the array it builds has the same records and the same reductions on every chromosome,
                    # also on chromosomes after the last one that has records
                    from bionumpy.streams import NpDataclassStream
                    cutp = r.randint(0, len(flat))
                    mk_st = lambda: NpDataclassStream(iter([c_ for c_ in (mk_bg(flat[:cutp]), mk_bg(flat[cutp:])) if len(c_)]), dataclass=BedGraph)
                    def recs_of(dd):
                        dd = dd.compute() if hasattr(dd, "compute") and not hasattr(dd, "chromosome") else dd
                        return [(c_, a_, b_, v_) for c_, a_, b_, v_ in zip([str(x) for x in dd.chromosome.tolist()], np.asarray(dd.start).tolist(), np.asarray(dd.stop).tolist(), np.asarray(dd.value).tolist()) if v_ != 0]
                    got_st = recs_of(genome.get_track(mk_st()).get_data())
                    exp_st = recs_of(ga.get_data())
                    ctx.check("streamed-construction", got_st == exp_st, "streamed-track/records-differ-from-in-memory-track", "bedGraph streamed in two chunks gives records %r, in memory %r" % (got_st[:4], exp_st[:4]), {"sizes": sizes, "records": flat, "cut": cutp, "got": got_st[:12], "expected": exp_st[:12]}, (tuple(sizes.items()), tuple(flat), cutp))
                    st_sum = bnp.compute((genome.get_track(mk_st()) * 2 + 1).sum())
                    if all(d[n].dtype.kind in "iub" for n in names):
                        # whole numbers: the dense sum is exact (added as Python integers: per-chromosome sums of 2**57 cancel in some draws, a float total would not be the reference)
                        exp_sum = sum(int((d[n] * 2 + 1).sum()) for n in names)
                        sum_ok = (int(st_sum) == exp_sum) if np.asarray(st_sum).dtype.kind in "iu" else abs(float(st_sum) - exp_sum) <= 1e-6 * max(1.0, sum(float(np.abs(d[n].astype(float) * 2 + 1).sum()) for n in names))
                    else:
                        exp_sum = math.fsum(float(x) for n in names for x in (d[n] * 2 + 1))
                        sum_ok = abs(float(st_sum) - exp_sum) <= 1e-6 * max(1.0, sum(float(np.abs(d[n] * 2 + 1).sum()) for n in names))
                    ctx.check("streamed-construction", sum_ok, "streamed-track/sum(t*2+1)-differs-from-dense", "sum(t*2+1) on the streamed track = %r, dense %r" % (float(st_sum), exp_sum), {"sizes": sizes, "records": flat, "cut": cutp}, (tuple(sizes.items()), tuple(flat), cutp, "sum"))
            tracks.append(ga)
            denses.append(d)
        nrec = sum(len(v) for recs in recs_all for v in recs.values())
        key = (tuple(sorted(sizes.items())), repr(recs_all))
        nt = key if (nchrom >= 2 or nrec >= 2) else None
        wit = {"sizes": sizes, "kinds": kinds, "records": [{n: list(map(list, v)) for n, v in recs.items()} for recs in recs_all], "seed": case["seed"]}
        # construction / to_dict (exact)
        for ti, (ga, d, kind) in enumerate(zip(tracks, denses, kinds)):
            td = ga.to_dict()
            ok = list(td.keys()) == names and all(same(td[n], d[n], True) for n in names)
            bad = next((n for n in names if n not in td or not same(td[n], d[n], True)), None)
            ctx.check("construct+to_dict:" + kind, ok, "to_dict/construction:%s" % kind, "to_dict()[%s] = %r, dense = %r" % (bad, np.asarray(td.get(bad)).tolist() if bad in td else None, d[bad].tolist() if bad else None),
                      dict(wit, track=ti, chrom=bad), nt and (nt, ti))
            # the kind of number the track holds (integer / float / boolean) is that of its records, also when there are none: arithmetic follows it
            kinds_got = {n: np.asarray(td[n]).dtype.kind for n in names if n in td}
            want_kind = {"int": "iu", "float": "f", "bool": "b"}[kind]
            badk = next((n for n in names if kinds_got.get(n, "?") not in want_kind), None)
            ctx.check("construct+to_dict:" + kind, badk is None, "to_dict/number-kind-differs:%s%s" % (kind, ":track-without-records" if not any(len(v) for v in recs_all[ti].values()) else ""),
                      "a %s track expands to an array of dtype kind %r on %s" % (kind, kinds_got.get(badk), badk), dict(wit, track=ti, chrom=badk), None)
            # pileup of an interval multiset equals coverage
        # pileup
        if r.random() < 0.5:
            ivs = []
            for n in names:
                for _ in range(r.randint(0, 4)):
                    a = r.randint(0, sizes[n] - 1)
                    ivs.append((n, a, r.randint(a + 1, sizes[n])))
            ivs.sort(key=lambda t: (names.index(t[0]), t[1]))
            if r.random() < 0.5:
                r.shuffle(ivs)
            if ivs:
                t = Interval([x[0] for x in ivs], np.array([x[1] for x in ivs], dtype=int), np.array([x[2] for x in ivs], dtype=int))
                if r.random() < 0.3:
                    t, _ = lazy_selection(lambda rows: Interval([x[0] for x in rows], np.array([x[1] for x in rows], dtype=int), np.array([x[2] for x in rows], dtype=int)), ivs, r, lambda: (names[0], 0, 1))
                pu = genome.get_intervals(t).get_pileup().to_dict()
                exp = {n: np.zeros(sizes[n], dtype=int) for n in names}
                for n, a, b in ivs:
                    exp[n][a:b] += 1
                ok = all(same(pu[n], exp[n], True) for n in names)
                ctx.check("pileup", ok, "pileup/coverage", "genome-wide pileup differs from coverage", dict(wit, intervals=ivs, got={n: np.asarray(pu[n]).tolist() for n in names}), (key, tuple(ivs)))
                if len(names) >= 2:
                    # the interval table as another genome object holds it (chromosome column coded in THAT genome's order) handed to a genome with the same contigs in another order:
                    # the coverage of the records, or a refusal
                    coded = genome.get_intervals(t).get_data()
                    names_b = list(reversed(names))
                    genome_b = bnp.Genome.from_dict({n: sizes[n] for n in names_b})
                    try:
                        pub = genome_b.get_intervals(coded).get_pileup().to_dict()
                    except Exception as e:
                        if not originates_in_library(e) and type(e).__name__ not in ("GenomeError", "EncodingException", "EncodingError"):
                            raise
                        pub = None
                        ctx.count("table_coded_by_another_genome_refused")
                    if pub is not None:
                        okb = all(n in pub and same(pub[n], exp[n], True) for n in names)
                        ctx.check("pileup", okb, "pileup/coverage:table-coded-by-a-genome-with-another-contig-order", "pileup in a genome ordered %r of a table coded by a genome ordered %r differs from the coverage of its records" % (names_b, names),
                                  dict(wit, intervals=ivs, got={n: np.asarray(pub[n]).tolist() for n in names if n in pub}), (key, tuple(ivs), "coded"))
        # expression trees
        for _ in range(case["n_expr"]):
            tree, typ = gen_expr(r, r.randint(0, depth), kinds)
            if tree is None:
                continue
            txt = show(tree)
            try:
                exp = {n: evaluate(tree, [d[n] for d in denses]) for n in names}
            except TypeError:
                continue
            res = evaluate(tree, tracks)
            if not hasattr(res, "to_dict"):
                continue
            td = res.to_dict()
            ok = all(same(td[n], exp[n], False) for n in names)
            bad = next((n for n in names if not same(td[n], exp[n], False)), None)
            ctx.check("expression", ok, "expression/value:%s" % opclass(tree), "%s on %s: got %r expected %r" % (txt, bad, np.asarray(td[bad]).tolist() if bad else None, exp[bad].tolist() if bad else None),
                      dict(wit, expr=txt, chrom=bad), (key, txt))
            cat = np.concatenate([np.asarray(exp[n]) for n in names])
            # reductions
            s = np.sum(res)
            exact_int = cat.dtype.kind in "iub" and isinstance(s, (int, np.integer))
            # floats: a run-length sum adds value*length per run, the dense sum adds element by element; the two differ by rounding in proportion to the magnitudes added (not to the result, which may be a small difference of huge terms)
            same_sum = (int(s) == int(cat.sum())) if cat.dtype.kind in "iub" else bool(abs(float(s) - float(cat.sum())) <= 1e-12 * max(1.0, float(np.abs(cat).sum())))
            if cat.dtype.kind in "iub" and not isinstance(s, (int, np.integer, bool, np.bool_)):
                same_sum = same_sum and float(s) == float(int(cat.sum())) and abs(int(cat.sum())) < 2 ** 53      # an integer array sums to an integer (exactly)
            ctx.check("sum", same_sum, "np.sum", "np.sum(%s) = %r, dense %r" % (txt, s, cat.sum()), dict(wit, expr=txt, got=float(s), expected=float(cat.sum())), (key, txt, "sum"))
            if cat.dtype != bool:
                lo, hi = float(cat.min()), float(cat.max())
                if hi > lo:
                    bins = r.choice([2, 3, 5])
                    try:
                        eh, ee = np.histogram(cat, bins=bins, range=(lo, hi))
                    except ValueError:
                        continue        # NumPy itself refuses this range on the dense array (range too narrow for the bins)
                    h, edges = np.histogram(res, bins=bins, range=(lo, hi))
                    ctx.check("histogram", bool(np.array_equal(np.asarray(h), eh) and np.allclose(edges, ee)), "np.histogram", "np.histogram(%s, bins=%d, range=(%r,%r)) = %r, dense %r" % (txt, bins, lo, hi, np.asarray(h).tolist(), eh.tolist()),
                              dict(wit, expr=txt, got=np.asarray(h).tolist(), expected=eh.tolist()), (key, txt, "hist"))
            # back-conversion
            data = res.get_data()
            chroms = [str(x) for x in data.chromosome.tolist()]
            starts, stops = np.asarray(data.start).tolist(), np.asarray(data.stop).tolist()
            vals = np.asarray(data.value).tolist() if hasattr(data, "value") else [True] * len(starts)
            back = {n: np.zeros(sizes[n], dtype=np.asarray(exp[n]).dtype) for n in names}
            order_ok = True
            last = (-1, -1)
            for c, a, b, v in zip(chroms, starts, stops, vals):
                if c not in sizes or not (0 <= a < b <= sizes[c]):
                    order_ok = False
                    continue
                cur = (names.index(c), a)
                if cur < last:
                    order_ok = False
                if (names.index(c) == last[0]) and a < last_stop:
                    order_ok = False
                last, last_stop = (names.index(c), a), b
                back[c][a:b] = v
            ok = order_ok and all(same(back[n], exp[n], False) for n in names)
            ctx.check("get_data", ok, "get_data/back-conversion:%s" % ("intervals" if typ == "bool" else "bedgraph"), "get_data() of %s does not expand back to the dense array (ordered/non-overlapping: %s)" % (txt, order_ok),
                      dict(wit, expr=txt, records=list(zip(chroms, starts, stops, vals))[:12]), (key, txt, "back"))
            str(res)

    # ---- the same expressions over STREAMED genomic arrays (tracks / masks built from streams of chunks), values held in any numeric type -----
    def streamed_expressions(case):
        from bionumpy.streams import NpDataclassStream
        r = random.Random(case["seed"])
        nchrom = r.randint(1, 3)
        names = r.sample(["chr1", "chr2", "chr10", "chrX"], nchrom)
        sizes = {n: r.randint(1, maxsize) for n in names}
        genome = bnp.Genome.from_dict(sizes)
        kinds = [r.choice(["int", "float", "bool", "int"]) for _ in range(r.randint(1, 3))]
        dts = [{"int": np.int64, "float": np.float64, "bool": bool}[k] for k in kinds]       # value columns of narrower types (int8 ... float32) are widened by the library at points that depend on the layout of the records (a gap, a record ending before the
        # contig end); the statement does not speak of value widths, so the values are held in the 64-bit types throughout
        recs_all, denses = [], []
        for kind, dt in zip(kinds, dts):
            recs = {n: [(a_, b_, (v_ if kind != "int" or abs(v_) < 100 else 7)) for a_, b_, v_ in gen_records(r, sizes[n], kind)] for n in names}
            recs_all.append(recs)
            d = {}
            for n in names:
                a = np.zeros(sizes[n], dtype=dt)
                for s_, e_, v_ in recs[n]:
                    a[s_:e_] = v_
                d[n] = a
            denses.append(d)

        def make_leaf(i):
            kind, dt, recs = kinds[i], dts[i], recs_all[i]
            flat = [(n, s_, e_, v_) for n in names for (s_, e_, v_) in recs[n]]
            cut = r.randint(0, len(flat))
            parts = [p_ for p_ in (flat[:cut], flat[cut:]) if p_]
            if kind == "bool":
                mk = lambda rows: Interval([x[0] for x in rows], np.array([x[1] for x in rows], dtype=int), np.array([x[2] for x in rows], dtype=int))
                return genome.get_intervals(NpDataclassStream(iter([mk(p_) for p_ in parts]), dataclass=Interval)).get_mask()
            mk = lambda rows: BedGraph([x[0] for x in rows], np.array([x[1] for x in rows], dtype=int), np.array([x[2] for x in rows], dtype=int), np.array([x[3] for x in rows], dtype=dt))
            return genome.get_track(NpDataclassStream(iter([mk(p_) for p_ in parts]), dataclass=BedGraph))

        tree, typ = gen_expr(r, r.randint(1, 2), kinds)
        if tree is None or tree[0] == "leaf":
            return

        def np_scalars(t):
            # some scalar operands are NumPy scalars (the result of another reduction, an element of an array) instead of Python numbers
            if t[0] == "scalar":
                v = t[1]
                if isinstance(v, int) and r.random() < 0.5:
                    v = v * 40          # large enough to leave the range of a narrow integer type when added to / multiplied with its values
                if r.random() < 0.6:
                    v = (np.int64(v) if r.random() < 0.7 or abs(v) > 127 else np.int8(v)) if isinstance(v, int) else (np.float64(v) if r.random() < 0.7 else np.float32(v))
                return ("scalar", v)
            if t[0] == "leaf":
                return t
            return (t[0],) + tuple(np_scalars(x) for x in t[1:])
        tree = np_scalars(tree)
        def leaf_ids(t):
            return [t[1]] if t[0] == "leaf" else ([] if t[0] == "scalar" else [i for x in t[1:] for i in leaf_ids(x)])
        leaves_used = leaf_ids(tree)
        used = sorted(set(leaves_used))
        if len(leaves_used) != len(set(leaves_used)):
            return          # a stream is read once: every streamed operand appears once in the expression
        txt = show(tree)
        wit = {"sizes": sizes, "kinds": kinds, "dtypes": [np.dtype(x).name for x in dts], "records": [{n: list(map(list, v)) for n, v in recs.items()} for recs in recs_all], "expr": txt, "seed": case["seed"]}
        with np.errstate(all="ignore"):
            try:
                exp = {n: evaluate(tree, [d[n] for d in denses]) for n in names}
            except (TypeError, OverflowError):
                return          # NumPy itself refuses the expression on the dense arrays
        leaves = {int(i): make_leaf(int(i)) for i in used}
        try:
            with np.errstate(all="ignore"):
                node = evaluate(tree, [leaves.get(i) for i in range(len(kinds))])
                data = node.get_data()
                data = data.compute() if hasattr(data, "compute") and not hasattr(data, "chromosome") else data
        except Exception as e:
            if not originates_in_library(e):
                raise
            ctx.observe("streamed-expression-refused:%s" % type(e).__name__)
            return
        chroms = [str(x) for x in data.chromosome.tolist()]
        starts, stops = np.asarray(data.start).tolist(), np.asarray(data.stop).tolist()
        vals = np.asarray(data.value).tolist() if hasattr(data, "value") else [True] * len(starts)
        back = {n: np.zeros(sizes[n], dtype=np.asarray(exp[n]).dtype) for n in names}
        inside = True
        for c, a, b, v in zip(chroms, starts, stops, vals):
            if c not in sizes or not (0 <= a <= b <= sizes[c]):
                inside = False
                continue
            back[c][a:b] = v
        # a mask where numbers are expected (or the other way round) is not the same array, even where True reads as 1
        exp_is_mask = np.asarray(exp[names[0]]).dtype == bool
        got_is_mask = not hasattr(data, "value") or np.asarray(data.value).dtype == bool
        ctx.check("expression:streamed", exp_is_mask == got_is_mask, "expression/mask-instead-of-numbers:streamed-arrays" if got_is_mask else "expression/numbers-instead-of-mask:streamed-arrays",
                  "%s over streamed arrays gives %s, NumPy on the dense arrays gives dtype %s" % (txt, "a mask (intervals)" if got_is_mask else "numbers", np.asarray(exp[names[0]]).dtype), dict(wit), None)
        bad = next((n for n in names if not same(back[n], exp[n], False)), None)
        narrow = any(np.dtype(dts[int(i)]).itemsize < 8 and kinds[int(i)] != "bool" for i in used)
        ctx.check("expression:streamed", inside and bad is None, "expression/value:streamed-arrays%s" % (":values-held-in-a-narrow-type" if narrow else ""),
                  "%s over streamed arrays on %s: got %r, NumPy on the dense arrays %r" % (txt, bad, back[bad].tolist() if bad else None, np.asarray(exp[bad]).tolist() if bad else None), dict(wit, chrom=bad), (tuple(sizes.items()), repr(recs_all), txt))
        cat = np.concatenate([np.asarray(exp[n]) for n in names])
        # the SAME lazy array computed again and again (its streams are read once): every further computation refuses, or gives the value of the records
        for again_ in range(3):
            try:
                with np.errstate(all="ignore"):
                    s_again = bnp.compute(node.sum())
            except Exception as e:
                if not originates_in_library(e) and not isinstance(e, (AssertionError, StopIteration)):
                    raise
                ctx.count("recomputation_of_a_consumed_array_refused")
                break
            want_ = float(cat.sum(dtype=(np.float64 if cat.dtype.kind == "f" else None)))
            if not ctx.check("sum:streamed", abs(float(s_again) - want_) <= 1e-9 * max(1.0, float(np.abs(cat.astype(np.float64)).sum())), "np.sum:streamed-arrays:computed-again-on-the-same-lazy-array",
                             "computation %d of sum(%s) on the same lazy array gave %r, the records give %r" % (again_ + 2, txt, float(s_again), want_), dict(wit, nth=again_ + 2), (tuple(sizes.items()), repr(recs_all), txt, "again", again_)):
                break
        # reductions over fresh streams of the same records
        try:
            with np.errstate(all="ignore"):
                leaves = {int(i): make_leaf(int(i)) for i in used}
                s_ = bnp.compute(evaluate(tree, [leaves.get(i) for i in range(len(kinds))]).sum())
            ok_sum = bool(abs(float(s_) - float(cat.sum(dtype=(np.float64 if cat.dtype.kind == "f" else None)))) <= 1e-9 * max(1.0, float(np.abs(cat.astype(np.float64)).sum())))
            if cat.dtype.kind in "iu" and cat.dtype.itemsize < 8:
                ok_sum = True if ok_sum else None       # sums of narrow integers: the accumulator type is not part of the statement
            if ok_sum is not None:
                ctx.check("sum:streamed", ok_sum, "np.sum:streamed-arrays", "sum of %s over streamed arrays = %r, dense %r" % (txt, float(s_), float(cat.sum())), dict(wit, got=float(s_), expected=float(cat.sum())), (tuple(sizes.items()), repr(recs_all), txt, "sum"))
        except Exception as e:
            if not originates_in_library(e):
                raise
            ctx.observe("streamed-sum-refused:%s" % type(e).__name__)
        if cat.dtype != bool and float(cat.max()) > float(cat.min()):
            # a histogram with a number of bins and no range: the dense result, or a refusal (the chromosomes have their own value ranges)
            bins = r.choice([2, 3, 4])
            eh, ee = np.histogram(cat, bins=bins)
            try:
                leaves = {int(i): make_leaf(int(i)) for i in used}
                with np.errstate(all="ignore"):
                    h_ = bnp.compute(np.histogram(evaluate(tree, [leaves.get(i) for i in range(len(kinds))]), bins=bins))
                gh = (np.asarray(h_[0]).tolist(), np.asarray(h_[1]).tolist())
            except Exception as e:
                if not originates_in_library(e):
                    raise
                gh = None
                ctx.count("streamed_histogram_without_range_refused")
            if gh is not None:
                ctx.check("histogram:streamed", gh[0] == eh.tolist() and np.allclose(gh[1], ee), "np.histogram(no-range):streamed-arrays", "np.histogram(%s, bins=%d) over streamed arrays = %r, dense %r" % (txt, bins, gh, (eh.tolist(), ee.tolist())),
                          dict(wit, got=gh, expected=[eh.tolist(), ee.tolist()]), (tuple(sizes.items()), repr(recs_all), txt, "hist"))
        # several results asked for in one bnp.compute call: as a dict that also holds a plain value (before the lazy results), each result under its own key
        try:
            with np.errstate(all="ignore"):
                la = {int(i): make_leaf(int(i)) for i in used}
                lb = {int(i): make_leaf(int(i)) for i in used}
                out = bnp.compute({"factor": 3, "records": evaluate(tree, [la.get(i) for i in range(len(kinds))]).get_data(), "a-second": evaluate(tree, [lb.get(i) for i in range(len(kinds))]).get_data()})        # (reductions and record streams are not mixed in one call)
            d2 = out["records"]
            ok_keys = isinstance(out.get("factor"), int) and out["factor"] == 3 and hasattr(d2, "chromosome")
            if ok_keys:
                back2 = {n: np.zeros(sizes[n], dtype=np.asarray(exp[n]).dtype) for n in names}
                vals2 = np.asarray(d2.value).tolist() if hasattr(d2, "value") else [True] * len(d2)
                for c, a, b, v in zip([str(x) for x in d2.chromosome.tolist()], np.asarray(d2.start).tolist(), np.asarray(d2.stop).tolist(), vals2):
                    if c in sizes and 0 <= a <= b <= sizes[c]:
                        back2[c][a:b] = v
                ok_keys = all(same(back2[n], exp[n], False) for n in names) and hasattr(out["a-second"], "chromosome") and len(out["a-second"]) == len(d2)
            ctx.check("expression:streamed", ok_keys, "compute(dict)/results-under-other-keys:streamed-arrays", "bnp.compute({'factor': 3, 'records': ..., 'a-second': ...}) for %s returned factor=%r, records of type %s, second of type %s" % (txt, out.get("factor"), type(out.get("records")).__name__, type(out.get("a-second")).__name__),
                      dict(wit), (tuple(sizes.items()), repr(recs_all), txt, "dict"))
        except Exception as e:
            if not originates_in_library(e):
                raise
            ctx.observe("streamed-compute-dict-refused:%s" % type(e).__name__)
        # mask and pileup of ONE streamed interval set evaluated together (each needs the chromosome sizes)
        if "bool" in kinds:
            bi = kinds.index("bool")
            flat_b = [(n, s_, e_) for n in names for (s_, e_, v_) in recs_all[bi][n]]
            if flat_b:
                mkiv = lambda rows: Interval([x[0] for x in rows], np.array([x[1] for x in rows], dtype=int), np.array([x[2] for x in rows], dtype=int))
                one = genome.get_intervals(NpDataclassStream(iter([mkiv(flat_b)]), dataclass=Interval))
                try:
                    mres, pdat = bnp.compute((one.get_mask().get_data(), one.get_pileup().get_data()))
                    pres = sum((int(b_) - int(a_)) * int(v_) for a_, b_, v_ in zip(np.asarray(pdat.start).tolist(), np.asarray(pdat.stop).tolist(), np.asarray(pdat.value).tolist()))
                    cov_total = sum(e_ - s_ for _, s_, e_ in flat_b)
                    mask_total = int(sum(int(b_) - int(a_) for a_, b_ in zip(np.asarray(mres.start).tolist(), np.asarray(mres.stop).tolist())))
                    ctx.check("expression:streamed", int(pres) == cov_total and mask_total == int(sum(int(denses[bi][n].sum()) for n in names)), "mask+pileup/one-streamed-interval-set-evaluated-together",
                              "mask covers %d bases (dense %d), pileup sums to %d (interval lengths %d)" % (mask_total, int(sum(int(denses[bi][n].sum()) for n in names)), int(pres), cov_total), dict(wit, intervals=flat_b), (tuple(sizes.items()), tuple(flat_b), "mp"))
                except Exception as e:
                    if not originates_in_library(e):
                        raise
                    et_ = type(e).__name__
                    ctx.check("expression:streamed", False, "mask+pileup/one-streamed-interval-set-evaluated-together:raised-%s" % et_, "computing mask and pileup of one streamed interval set together raised %s" % et_, dict(wit, intervals=flat_b), None)
        ctx.count("streamed_expressions")

    for i in range(ctx.share(ctx.pick(3200, 30000))):
        ctx.run_case(streamed_expressions, {"seed": rng.randrange(2 ** 40)})
    ctx.floor("streamed_expressions", ctx.pick(20, 400))

    for i in range(ctx.share(ctx.pick(1600, 20000))):
        ctx.run_case(one, {"seed": rng.randrange(2 ** 40), "n_expr": 4})
    ctx.sample({"example": "genome {chr1: 8, chr10: 3}; t0 = bedGraph [(chr1,0,3,1.5),(chr1,4,8,2.0)]; expr (5 - t0) > 3; compared per base with NumPy"})
    ctx.floor("judged:expression", ctx.pick(200, 5000))
    ctx.floor("judged:get_data", ctx.pick(200, 5000))
    ctx.floor("judged:histogram", ctx.pick(30, 1000))
    ctx.floor("lazy_selection_operands", ctx.pick(20, 400))       # the un-decoded / lazy-view variants must actually have run


def opclass(tree):
    k = tree[0]
    if k in ("leaf", "scalar"):
        return "leaf"
    if k == "~":
        return "invert"
    left_scalar = tree[1][0] == "scalar"
    right_scalar = tree[2][0] == "scalar"
    return "%s:%s" % ({"+": "arith", "-": "arith", "*": "arith", "<": "cmp", ">": "cmp", "==": "cmp", "&": "logic", "|": "logic"}[k],
                      "scalar-left" if left_scalar else ("scalar-right" if right_scalar else "array-array"))


def replay(ctx, w):
    pass
