"""C11 — streamed evaluation equals in-memory evaluation for every chunking.

Differential over ALL chunkings: for each dataset of n sorted entries, each of the 2^(n-1) ways of cutting it into consecutive
chunks is streamed through each computation and compared with the same computation on the concatenated data.  M8 lock-step
monitor on the computation-graph nodes (StreamNode / ComputationNode buffer indices advance by exactly one, never skip).
"""
import itertools
import random

import numpy as np

RULE = ("datasets of n<=8 (10 thorough) sorted entries x ALL 2^(n-1) cut sets (exhaustive; sampled cut sets for n up to 200) x computations {mean(axis None/0), bincount, "
        "histogram(bins,range), count_kmers, groupby on sorted key, chunk_entries(m), per-chromosome pipelines via Genome.get_intervals(stream)+compute: pileup sum/mean/histogram, mask, "
        "values under intervals} on genomes of 1..4 chromosomes, fed as NpDataclassStream and as files read with small min_chunk_size; one evaluation = one (dataset, cut set, computation); "
        "distinct = that triple; non-trivial = at least one cut")
ASSUMPTIONS = ["the same computation on the concatenated table is the reference", "histogram is called with explicit bins and range (without them per-chunk edges differ and no single result is defined)",
               "chunk_entries: every chunk but the last has exactly m entries (literal reading); a last chunk larger than m is recorded, not judged"]
EXHAUSTIVE_CORE = "all 2^(n-1) chunkings of every dataset with n <= 8 (10)"


def preload():
    import bionumpy  # noqa
    import bionumpy.streams.chunk_entries, bionumpy.computation_graph, bionumpy.sequence.kmers  # noqa


class LockStep:
    """M8: node buffer indices advance by exactly one and never skip."""

    def __init__(self, ctx):
        self.ctx = ctx

    def install(self):
        from bionumpy import computation_graph as cg
        from bnpmon.install import monitor_method
        ctx = self.ctx

        def pre(args, kwargs):
            return getattr(args[0], "_buffer_index", None)

        def post(result, args, kwargs, before):
            node, i = args[0], args[1]
            after = node._buffer_index
            ctx.count("m8_node_events")
            if before is None:
                return
            if not (after in (before, before + 1) and after == i):
                ctx.violation("lockstep/node-index-skipped:%s" % type(node).__name__, "node buffer index went %r -> %r when buffer %r was requested" % (before, after, i), {"before": before, "after": after, "requested": i})
        for cls in (cg.StreamNode, cg.ComputationNode):
            monitor_method(cls, "_get_buffer", pre=pre, post=post)


def cutsets(n):
    for k in range(n):
        for c in itertools.combinations(range(1, n), k):
            yield c


def run(ctx):
    import bionumpy as bnp
    from bionumpy.datatypes import Bed6, Interval, SequenceEntry
    from bionumpy.streams import NpDataclassStream, BnpStream
    from bionumpy.streams.chunk_entries import chunk_entries
    from bionumpy.sequence import count_kmers
    from bnpmon import tables
    from bnpmon.util import chrom_names
    LockStep(ctx).install()
    rng = ctx.rng
    nmax = ctx.pick(8, 10)

    def make_dataset(r, n, nchrom):
        # the keys are grouped in the order of the genome, which need not be the byte order of the names (chr2 before chr10, chrX before chrM)
        pool = r.choice([["chr%d" % (i + 1) for i in range(12)], ["chr%d" % (i + 1) for i in range(12)], ["chr1", "chr2", "chr10", "chr11", "chr3", "chrX", "chrM", "chr20"],
                         ["chr9", "chr10", "chr100", "chrX", "chrM", "b", "a", "B"], ["chrX", "chrM", "chr2", "chr10", "10", "9", "chr1_alt", "chr1"]])
        names = pool[:nchrom]
        per = sorted((r.choice(names) for _ in range(n)), key=names.index)
        rows, pos = [], {}
        for c in per:
            a = pos.get(c, 0) + r.randint(0, 6)
            b = a + r.randint(1, 9)
            pos[c] = a + 1
            rows.append((c, a, b, "n%d" % len(rows), r.randint(0, 12), r.choice("+-+-.")))
        return names, rows

    def bed6(rows):
        return Bed6([x[0] for x in rows], np.array([x[1] for x in rows], dtype=int), np.array([x[2] for x in rows], dtype=int), [x[3] for x in rows],
                    np.array([x[4] for x in rows], dtype=int), [x[5] for x in rows])

    def pieces(t, cuts):
        b = [0] + list(cuts) + [len(t)]
        return [t[i:j] for i, j in zip(b[:-1], b[1:])]

    def same(a, b):
        a, b = np.asarray(a), np.asarray(b)
        if a.shape != b.shape:
            return False
        if a.dtype.kind == "f" or b.dtype.kind == "f":
            return bool(np.allclose(a, b, rtol=1e-12, atol=1e-12, equal_nan=True))
        return bool(np.array_equal(a, b))

    def one(case):
        r = random.Random(case["seed"])
        n, nchrom = case["n"], case["nchrom"]
        names, rows = make_dataset(r, n, nchrom)
        top = max([x[2] for x in rows] + [0]) + 20
        sizes = {c: max(120, top) for c in names}
        t = bed6(rows)
        seqs = ["".join(r.choice("ACGT") for _ in range(r.randint(0, 7))) for _ in rows]
        seq_table = SequenceEntry(["s%d" % i for i in range(n)], bnp.as_encoded_array(seqs, bnp.DNAEncoding))
        mat = np.array([[r.randint(0, 9) for _ in range(3)] for _ in rows], dtype=int)
        genome = bnp.Genome.from_dict(sizes)
        # references on the concatenated data
        ref = {
            "mean": float(np.mean(t.start)), "mean0": np.mean(mat, axis=0), "bincount": np.bincount(t.score), "hist": np.histogram(t.stop, bins=5, range=(0, 100))[0],
            "groups": [(k, [x[3] for x in rows if x[0] == k]) for k in sorted(set(x[0] for x in rows), key=names.index)],
        }
        big_values = np.array([r.choice([-2 ** 60, 2 ** 60, 1, 1, 3, -2 ** 59, 2 ** 59, 2 ** 62, 2 ** 62, -2 ** 62]) for _ in rows], dtype=np.int64)      # totals beyond the int64 range included
        ref["big_values"] = big_values
        ref["big_mean"] = float(sum(int(v) for v in big_values) / max(1, len(big_values)))
        kc = count_kmers(seq_table.sequence, 2)
        ref["kmers"] = np.asarray(kc.counts).ravel().tolist()
        gi = genome.get_intervals(t.astype(Interval))
        pile = gi.get_pileup()
        ref["pileup_sum"] = int(np.sum(pile))
        ref["pileup_hist"] = np.histogram(np.concatenate([np.asarray(v) for v in pile.to_dict().values()]), bins=3, range=(0, 3))[0]
        hh = np.histogram(np.concatenate([np.asarray(v) for v in pile.to_dict().values()]), bins=3)
        ref["pileup_hist_norange"] = (hh[0].tolist(), hh[1].tolist())
        ref["odd_window"] = r.choice([1, 3, 5, 7])
        pdm = pile.get_data()
        ref["pileup_rows"] = [(c_, a_, b_, v_) for c_, a_, b_, v_ in zip(chrom_names(pdm.chromosome), np.asarray(pdm.start).tolist(), np.asarray(pdm.stop).tolist(), np.asarray(pdm.value).tolist()) if v_ != 0]
        ref["mask_rows"] = tables.rows_of(gi.get_mask().get_data()) if False else list(zip(chrom_names(gi.get_mask().get_data().chromosome), np.asarray(gi.get_mask().get_data().start).tolist(), np.asarray(gi.get_mask().get_data().stop).tolist()))
        dense = pile.to_dict()
        ref["under"] = [np.asarray(dense[c][a:b]).tolist() for c, a, b, *_ in rows]
        ref["under_mean"] = float(np.mean(np.concatenate([np.asarray(dense[c][a:b]) for c, a, b, *_ in rows]))) if rows else None
        def rows_under(v):
            return [np.asarray(x.to_array() if hasattr(x, "to_array") else x).tolist() for x in v]
        ref["under_mean0"] = np.asarray(np.mean(pile[gi], axis=0))           # intervals of unequal length: column j averages the intervals that reach j
        ref["under_stranded"] = rows_under(pile[genome.get_intervals(t, stranded=True)])
        # in-memory windows (sorted by chromosome and start, ties on start with the longer window first) used to index a streamed track
        wins = []
        for c in names:
            st = 0
            for _ in range(r.randint(0, 3)):
                st += r.randint(0, 8)
                ln = r.randint(2, 9)
                wins.append((c, st, st + ln))
                if r.random() < 0.4:
                    wins.append((c, st, st + r.randint(1, ln - 1)))
        win_t = Interval([w[0] for w in wins], np.array([w[1] for w in wins], dtype=int), np.array([w[2] for w in wins], dtype=int)) if wins else None
        ref["under_windows"] = rows_under(pile[genome.get_intervals(win_t)]) if wins else None
        ref["windows_mean0"] = np.asarray(np.mean(pile[genome.get_intervals(win_t)], axis=0)) if wins else None      # windows on some chromosomes see no read at all
        allpos = np.concatenate([np.asarray(v) for v in pile.to_dict().values()])
        ref["fraction_deeper_than_1"] = float(np.mean(allpos > 1))
        ref["mean_depth"] = float(np.mean(allpos))
        # a second genome whose chromosomes end at or before the last stops: some intervals reach the end exactly, some hang over it
        sizes_c = {}
        for c in names:
            mine_c = [x for x in rows if x[0] == c]
            sizes_c[c] = max(max([x[2] for x in mine_c]) - r.choice([0, 0, 1, 2, 4]), max(x[1] for x in mine_c) + 1) if mine_c else r.randint(1, 9)
        genome_c = bnp.Genome.from_dict(sizes_c)
        dense_c = {c: [0] * sizes_c[c] for c in names}
        for c, a, b, *_ in rows:
            for q in range(a, min(b, sizes_c[c])):
                dense_c[c][q] += 1
        ref["clip_sum"] = sum(sum(v) for v in dense_c.values())
        ref["clip_dense"] = dense_c
        wit = {"rows": rows, "seqs": seqs, "seed": case["seed"], "windows": wins, "sizes_of_the_clipping_genome": sizes_c}
        all_cuts = list(cutsets(n)) if n <= nmax else [tuple(sorted(r.sample(range(1, n), r.randint(0, min(n - 1, 12))))) for _ in range(12)] + [(), tuple(range(1, n))]
        for cuts in all_cuts:
            nt = (repr(rows), cuts) if cuts else None
            W = dict(wit, cuts=list(cuts))

            def stream():
                return NpDataclassStream(iter(pieces(t, cuts)), dataclass=Bed6)

            def chk(name, ok, got, exp):
                ctx.check(name, ok, "%s/streamed!=in-memory" % name, "%s over chunking %r gave %r, in-memory %r" % (name, list(cuts), got, exp), dict(W, computation=name, got=got, expected=exp), nt and (nt, name))

            g = float(np.asarray(bnp.mean(stream().start)).ravel()[0])
            chk("mean", abs(g - ref["mean"]) <= 1e-9 * max(1, abs(ref["mean"])), g, ref["mean"])
            # integers whose partial sums leave the exactly representable range of doubles: the streamed mean must still be the mean of the exact total
            bigv = ref["big_values"]
            g = float(np.asarray(bnp.mean(BnpStream(iter(pieces(bigv, cuts))))).ravel()[0])
            chk("mean:large-integers", abs(g - ref["big_mean"]) <= 1e-9 * max(1.0, abs(ref["big_mean"])), g, ref["big_mean"])
            g = np.asarray(bnp.mean(BnpStream(iter(pieces(mat, cuts))), axis=0))
            chk("mean(axis=0)", same(g, ref["mean0"]), g.tolist(), ref["mean0"].tolist())
            g = np.asarray(bnp.bincount(stream().score))
            chk("bincount", same(g, ref["bincount"]), g.tolist(), ref["bincount"].tolist())
            g = np.asarray(bnp.histogram(stream().stop, bins=5, range=(0, 100))[0])
            chk("histogram", same(g, ref["hist"]), g.tolist(), ref["hist"].tolist())
            g = count_kmers(NpDataclassStream(iter(pieces(seq_table, cuts)), dataclass=SequenceEntry).sequence, 2)
            g = np.asarray(g.counts).ravel().tolist()
            chk("count_kmers", g == ref["kmers"], g, ref["kmers"])
            grp = [(str(k), [str(x) for x in v.name.tolist()]) for k, v in bnp.groupby(stream(), "chromosome")]
            chk("groupby", grp == ref["groups"], grp, ref["groups"])
            # a caller-supplied key function names the groups
            grp = [(str(k), [str(x) for x in v.name.tolist()]) for k, v in bnp.groupby(stream(), "chromosome", key=lambda c_: "<%s>" % c_.to_string())]
            chk("groupby:custom-key", grp == [("<%s>" % k, v) for k, v in ref["groups"]], grp, [("<%s>" % k, v) for k, v in ref["groups"]])
            # a loop over the stream left early with `break`, the same stream used afterwards: what comes afterwards is the rest
            st_ = stream()
            first_names = []
            for c_ in st_:
                first_names += [str(x) for x in c_.name.tolist()]
                break
            rest_names = [str(x) for c_ in st_ for x in c_.name.tolist()]
            chk("stream:resumed-after-break", first_names + rest_names == [x[3] for x in rows], first_names + rest_names, [x[3] for x in rows])
            if len(cuts) >= 1:
                st_ = stream()
                for c_ in st_:
                    n_first = len(c_)
                    break
                g = np.asarray(bnp.bincount(st_.score))
                want_b = np.bincount(np.asarray(t.score)[n_first:]) if n_first < n else np.zeros(0, dtype=int)
                chk("bincount:on-the-rest-of-a-stream", same(g, want_b) or (g.size == 0 and want_b.size == 0), np.asarray(g).tolist(), want_b.tolist())
            # chunk_entries
            m = case["m"]
            ch = [len(c) for c in chunk_entries(stream(), m)]
            back = [str(x) for c in chunk_entries(stream(), m) for x in c.name.tolist()]
            chk("chunk_entries:order+content", back == [x[3] for x in rows], back, [x[3] for x in rows])
            chk("chunk_entries:sizes", all(s == m for s in ch[:-1]) and sum(ch) == n, ch, "all but last == %d" % m)
            if ch and ch[-1] > m:
                ctx.observe("chunk_entries-last-chunk-larger-than-n", {"m": m, "sizes": ch, "cuts": list(cuts)})
            # per-chromosome pipelines (streams must respect chromosome grouping only through groupby: any cut is allowed)
            sgi = genome.get_intervals(NpDataclassStream(iter(pieces(t.astype(Interval), cuts)), dataclass=Interval))
            sp = sgi.get_pileup()
            g = int(bnp.compute(sp.sum()))
            chk("pipeline:pileup.sum", g == ref["pileup_sum"], g, ref["pileup_sum"])
            sgi = genome.get_intervals(NpDataclassStream(iter(pieces(t.astype(Interval), cuts)), dataclass=Interval))
            g = np.asarray(bnp.compute(np.histogram(sgi.get_pileup(), bins=3, range=(0, 3)))[0])
            chk("pipeline:pileup.histogram", same(g, ref["pileup_hist"]), g.tolist(), ref["pileup_hist"].tolist())
            sgi = genome.get_intervals(NpDataclassStream(iter(pieces(t.astype(Interval), cuts)), dataclass=Interval))
            d = sgi.get_mask().get_data().compute()
            g = list(zip(chrom_names(d.chromosome), np.asarray(d.start).tolist(), np.asarray(d.stop).tolist()))
            chk("pipeline:mask", g == ref["mask_rows"], g, ref["mask_rows"])
            sgi = genome.get_intervals(NpDataclassStream(iter(pieces(t.astype(Interval), cuts)), dataclass=Interval))
            sgi2 = genome.get_intervals(NpDataclassStream(iter(pieces(t.astype(Interval), cuts)), dataclass=Interval))
            under = sgi2.get_pileup()[sgi]
            g = bnp.compute(under)
            g = [np.asarray(x.to_array() if hasattr(x, "to_array") else x).tolist() for x in g]
            chk("pipeline:values-under-intervals", g == ref["under"], g[:4], ref["under"][:4])
            mk_iv = lambda: genome.get_intervals(NpDataclassStream(iter(pieces(t.astype(Interval), cuts)), dataclass=Interval))
            g = np.asarray(bnp.compute(np.mean(mk_iv().get_pileup()[mk_iv()], axis=0)))
            chk("pipeline:mean(axis=0)-under-intervals", same(g, ref["under_mean0"]), g.tolist(), ref["under_mean0"].tolist())
            sst = genome.get_intervals(NpDataclassStream(iter(pieces(t, cuts)), dataclass=Bed6), stranded=True)
            g = rows_under(bnp.compute(mk_iv().get_pileup()[sst]))
            chk("pipeline:values-under-stranded-intervals", g == ref["under_stranded"], g[:4], ref["under_stranded"][:4])
            # two results computed from ONE streamed interval object in one compute(): merging (with a distance) must not disturb the pileup
            one_gi = mk_iv()
            mg, pl = one_gi.merged(3), one_gi.get_pileup()
            both_res = bnp.compute((mg.start, mg.stop, pl.get_data()))
            mm = gi.merged(3).get_data()
            pd_ = both_res[2]
            prow = [(c_, a_, b_, v_) for c_, a_, b_, v_ in zip(chrom_names(pd_.chromosome), np.asarray(pd_.start).tolist(), np.asarray(pd_.stop).tolist(), np.asarray(pd_.value).tolist()) if v_ != 0]
            chk("pipeline:merged(d)+pileup-of-the-same-intervals", np.asarray(both_res[0]).tolist() == np.asarray(mm.start).tolist() and np.asarray(both_res[1]).tolist() == np.asarray(mm.stop).tolist() and prow == ref["pileup_rows"],
                [np.asarray(both_res[0]).tolist()[:5], np.asarray(both_res[1]).tolist()[:5], prow[:4]], [np.asarray(mm.start).tolist()[:5], np.asarray(mm.stop).tolist()[:5], ref["pileup_rows"][:4]])
            # several reductions asked for in one compute call as a dict (keys not in alphabetical order): every value under its own key
            sg1 = genome.get_intervals(NpDataclassStream(iter(pieces(t.astype(Interval), cuts)), dataclass=Interval))
            sg2 = genome.get_intervals(NpDataclassStream(iter(pieces(t.astype(Interval), cuts)), dataclass=Interval))
            outd = bnp.compute({"total": sg1.get_pileup().sum(), "histogram": np.histogram(sg2.get_pileup(), bins=3, range=(0, 3))})
            okd = isinstance(outd, dict) and list(outd) == ["total", "histogram"] and np.ndim(outd["total"]) == 0 and int(outd["total"]) == ref["pileup_sum"] and same(np.asarray(outd["histogram"][0]), ref["pileup_hist"])
            chk("pipeline:compute(dict)", okd, {k_: str(v_)[:60] for k_, v_ in outd.items()} if isinstance(outd, dict) else str(outd)[:80], {"total": ref["pileup_sum"], "histogram": ref["pileup_hist"].tolist()})
            # the axis of a mean given positionally, as for NumPy arrays
            g = np.asarray(bnp.compute(np.mean(mk_iv().get_pileup()[mk_iv()], 0)))
            chk("pipeline:mean(x, 0)-under-intervals", same(g, ref["under_mean0"]), g.tolist(), ref["under_mean0"].tolist())
            # intervals that reach to, or hang over, the end of their chromosome are clipped first: clip -> pileup, streamed
            sgc = genome_c.get_intervals(NpDataclassStream(iter(pieces(t.astype(Interval), cuts)), dataclass=Interval)).clip().get_pileup()
            g = int(bnp.compute(sgc.sum()))
            chk("pipeline:clip+pileup.sum", g == ref["clip_sum"], g, ref["clip_sum"])
            pdc = bnp.compute(genome_c.get_intervals(NpDataclassStream(iter(pieces(t.astype(Interval), cuts)), dataclass=Interval)).clip().get_pileup().get_data())
            g = {c_: [0] * sizes_c[c_] for c_ in names}           # per-base values (equal neighbouring runs need not be joined)
            inside = True
            for c_, a_, b_, v_ in zip(chrom_names(pdc.chromosome), np.asarray(pdc.start).tolist(), np.asarray(pdc.stop).tolist(), np.asarray(pdc.value).tolist()):
                inside = inside and 0 <= a_ <= b_ <= sizes_c[c_]
                for q in range(max(a_, 0), min(b_, sizes_c[c_])):
                    g[c_][q] += v_
            chk("pipeline:clip+pileup", inside and g == ref["clip_dense"], g, ref["clip_dense"])
            # windows of an odd and an even size around streamed locations
            for wsz in (ref["odd_window"], 4):
                sloc = genome.get_intervals(NpDataclassStream(iter(pieces(t.astype(Interval), cuts)), dataclass=Interval)).get_location("start")
                wst = sloc.get_windows(window_size=wsz)
                g = bnp.compute((wst.start, wst.stop))
                mw = gi.get_location("start").get_windows(window_size=wsz)
                chk("pipeline:get_windows(window_size)", np.asarray(g[0]).tolist() == np.asarray(mw.start).tolist() and np.asarray(g[1]).tolist() == np.asarray(mw.stop).tolist(), [np.asarray(g[0]).tolist()[:5], np.asarray(g[1]).tolist()[:5]], [np.asarray(mw.start).tolist()[:5], np.asarray(mw.stop).tolist()[:5]])
            # histogram with a number of bins and no range: the in-memory value, or a refusal
            try:
                g = bnp.compute(np.histogram(mk_iv().get_pileup(), bins=3))
                gh = (np.asarray(g[0]).tolist(), np.asarray(g[1]).tolist())
            except Exception as e:
                from bnpmon.ctx import originates_in_library
                if not originates_in_library(e):
                    raise
                gh = None
                ctx.count("histogram_without_range_refused")
            if gh is not None:
                chk("pipeline:pileup.histogram(no-range)", gh[0] == ref["pileup_hist_norange"][0] and np.allclose(gh[1], ref["pileup_hist_norange"][1]), gh, ref["pileup_hist_norange"])
            if wins:
                g = rows_under(bnp.compute(mk_iv().get_pileup()[genome.get_intervals(win_t)]))
                chk("pipeline:streamed-track[in-memory windows]", g == ref["under_windows"], g[:4], ref["under_windows"][:4])
                g = np.asarray(bnp.compute(np.mean(mk_iv().get_pileup()[genome.get_intervals(win_t)], axis=0)))
                chk("pipeline:mean(axis=0)-under-windows", same(g, ref["windows_mean0"]), g.tolist(), ref["windows_mean0"].tolist())
            # the line re-chunker behind read_chunks(n_lines=...)
            from bionumpy.io.parser import chunk_lines
            cl = list(chunk_lines(iter(pieces(t, cuts)), m))
            back = [str(x) for c in cl for x in c.name.tolist()]
            chk("chunk_lines:order+content", back == [x[3] for x in rows], back, [x[3] for x in rows])
            chk("chunk_lines:sizes", all(len(c) == m for c in cl[:-1]) and sum(len(c) for c in cl) == n, [len(c) for c in cl], "all but last == %d" % m)
        ctx.count("datasets")

    def big_kmers(case):
        # more than a million k-mers in one table: the in-memory count (the value every chunking is compared with) and the streamed counts are the counts of the windows
        r = random.Random(case["seed"])
        nprng = np.random.default_rng(case["seed"])
        lens = [300000 + r.randint(0, 7) for _ in range(4)]
        seqs = ["".join(np.array(list("ACGT"))[nprng.integers(0, 4, size=L)]) for L in lens]
        tab = SequenceEntry(["s%d" % i for i in range(4)], bnp.as_encoded_array(seqs, bnp.DNAEncoding))
        exp_total = sum(L - 1 for L in lens)
        exp_aa = sum(s_.count("AA") + sum(1 for _ in ()) for s_ in seqs)      # non-overlapping count is not the window count: use the window count below
        exp_aa = sum(sum(1 for i in range(len(s_) - 1) if s_[i] == "A" and s_[i + 1] == "A") for s_ in seqs[:1]) if False else None
        whole = count_kmers(tab.sequence, 2)
        tot_whole = int(np.asarray(whole.counts).sum())
        ctx.check("count_kmers", tot_whole == exp_total, "count_kmers/total:more-than-1e6-kmers-in-one-table", "count_kmers over %d windows counts %d" % (exp_total, tot_whole), {"lengths": lens, "seed": case["seed"], "got": tot_whole, "expected": exp_total}, ("bigk", case["seed"]))
        for cuts in ((1,), (2,), (1, 2, 3)):
            b = [0] + list(cuts) + [4]
            st = NpDataclassStream(iter([tab[i:j] for i, j in zip(b[:-1], b[1:])]), dataclass=SequenceEntry)
            g = count_kmers(st.sequence, 2)
            tot = int(np.asarray(g.counts).sum())
            ctx.check("count_kmers", tot == exp_total and np.asarray(g.counts).ravel().tolist() == np.asarray(whole.counts).ravel().tolist(), "count_kmers/streamed!=in-memory:more-than-1e6-kmers-in-one-table",
                      "streamed count_kmers (cuts %r) counts %d, in memory %d, windows %d" % (cuts, tot, tot_whole, exp_total), {"lengths": lens, "seed": case["seed"], "cuts": list(cuts)}, ("bigk", case["seed"], cuts))
        ctx.count("big_kmer_tables")

    def file_case(case):
        r = random.Random(case["seed"])
        names, rows = make_dataset(r, case["n"], case["nchrom"])
        p = ctx.path("c11.bed")
        with open(p, "w") as f:
            for x in rows:
                f.write("%s\t%d\t%d\t%s\t%d\t%s\n" % x)
        whole = bnp.open(p, buffer_type=tables.get_buffer_type("Bed6Buffer")).read()
        size = sum(len("%s\t%d\t%d\t%s\t%d\t%s\n" % x) for x in rows)
        refm = float(np.mean(whole.start))
        refb = np.bincount(whole.score)
        refg = [(k, [x[3] for x in rows if x[0] == k]) for k in sorted(set(x[0] for x in rows), key=names.index)]
        for k in sorted({1, 7, 20, size // 2 + 1, size, size + 1}):
            def st():
                return bnp.open(p, buffer_type=tables.get_buffer_type("Bed6Buffer")).read_chunks(min_chunk_size=k)
            nt = (repr(rows), k)
            g = float(np.asarray(bnp.mean(st().start)).ravel()[0])
            ctx.check("file:mean", abs(g - refm) < 1e-9 * max(1, abs(refm)), "file-stream/mean", "mean over file chunks (k=%d) %r != %r" % (k, g, refm), {"rows": rows, "k": k}, nt)
            g = np.asarray(bnp.bincount(st().score))
            ctx.check("file:bincount", same(g, refb), "file-stream/bincount", "bincount over file chunks (k=%d) differs" % k, {"rows": rows, "k": k, "got": g.tolist()}, nt)
            grp = [(str(a), [str(x) for x in v.name.tolist()]) for a, v in bnp.groupby(st(), "chromosome")]
            ctx.check("file:groupby", grp == refg, "file-stream/groupby", "groupby over file chunks (k=%d) gave %r expected %r" % (k, grp, refg), {"rows": rows, "k": k}, nt)

    nds = ctx.share(ctx.pick(6 * 16, 40 * 16))
    for i in range(nds):
        n = rng.choice([1, 2, 3, 5, nmax, nmax]) if not ctx.quick else rng.choice([1, 2, 4, 6, nmax])
        ctx.run_case(one, {"seed": rng.randrange(2 ** 40), "n": n, "nchrom": rng.randint(1, 4), "m": rng.randint(1, 4)})
    for i in range(ctx.share(ctx.pick(16, 400))):
        ctx.run_case(one, {"seed": rng.randrange(2 ** 40), "n": rng.randint(nmax + 1, ctx.pick(40, 200)), "nchrom": rng.randint(1, 4), "m": rng.randint(1, 30)})
    for i in range(ctx.share(ctx.pick(32, 800))):
        ctx.run_case(file_case, {"seed": rng.randrange(2 ** 40), "n": rng.randint(1, 12), "nchrom": rng.randint(1, 3)})
    if ctx.shard < ctx.pick(2, 8):
        ctx.run_case(big_kmers, {"seed": ctx.seed * 53 + ctx.shard})
    ctx.sample({"dataset": [["chr1", 0, 5, "n0", 3, "+"], ["chr1", 4, 9, "n1", 7, "-"], ["chr2", 2, 3, "n2", 0, "+"]], "cuts": [1], "computations": "mean, bincount, histogram, count_kmers, groupby, chunk_entries, pipelines"})
    ctx.floor("judged:groupby", ctx.pick(200, 5000))
    ctx.floor("judged:pipeline:mask", ctx.pick(200, 5000))
    ctx.floor("m8_node_events", ctx.pick(1000, 20000))


def replay(ctx, w):
    pass
