"""C06 — alphabet encodings accept exactly their alphabet and never change the text.

Exhaustive byte sweep (256 bytes x every predefined alphabet encoding x 3 entry points), foreign-character injection at
every position, pairwise re-targeting of already-encoded data (every ordered pair of alphabets x every short string over the
source alphabet x 3 API routes), numeric/label encodings round trip.  Oracle: alphabet membership computed in plain Python.
"""
import itertools

import numpy as np

RULE = ("exhaustive: 256 bytes x 12 alphabet encodings x {str, base-encoded array, list-of-strings}; every string of length <=L over each alphabet "
        "with one foreign byte at each position; every ordered pair of alphabets x every string of length <=L over the source alphabet x "
        "{as_encoded_array, change_encoding, target.encode}; L=2 (3 for alphabets <=5 letters) quick, 3 (5) thorough. "
        "distinct = (encoding, entry point, text); non-trivial = text has >=1 character")
ASSUMPTIONS = ["'letters matched case-insensitively' applies to letters only: a non-letter symbol is accepted only as itself",
               "rejection of text must be bionumpy.encodings.exceptions.EncodingError; for re-targeting any exception is an allowed outcome"]
EXHAUSTIVE_CORE = "256 bytes x all predefined alphabet encodings x entry points; all ordered alphabet pairs x all strings up to length L"


def preload():
    import bionumpy  # noqa
    import bionumpy.encodings.alphabet_encoding  # noqa
    import bionumpy.encodings.string_encodings  # noqa


def encodings():
    from bionumpy.encodings import alphabet_encoding as ae
    names = ["ACTGEncoding", "ACGTEncoding", "ACTGnEncoding", "ACGTnEncoding", "DigitEncoding", "ACUGEncoding", "AminoAcidEncoding", "BamEncoding",
             "CigarOpEncoding", "StrandEncoding"]
    out = [(n, getattr(ae, n)) for n in names]
    out.append(("custom:xyZ9", ae.AlphabetEncoding("xyZ9")))
    out.append(("custom:AB-", ae.AlphabetEncoding("AB-")))
    return out


def accepts(alphabet, b):
    if b >= 128:
        return False
    c = chr(b)
    return (c in alphabet) or (c.isalpha() and c.upper() in alphabet)


def run(ctx):
    import bionumpy as bnp
    from bionumpy.encoded_array import EncodedArray, EncodedRaggedArray, BaseEncoding
    from bionumpy.encodings.exceptions import EncodingError
    from bnpmon.util import text_rows
    encs = encodings()
    rng = ctx.rng

    def decode_text(x):
        return text_rows(x)

    # ---------------- A. exhaustive byte sweep -------------------------------------------------
    def sweep(item):
        name, enc, b, route = item
        alphabet = [c.upper() for c in enc.get_alphabet()]
        should = accepts(alphabet, b)
        ctx.count("byte_sweep")
        try:
            if route == "str":
                res = bnp.as_encoded_array(chr(b), enc)
            elif route == "array":
                res = bnp.as_encoded_array(EncodedArray(np.array([b], dtype=np.uint8), BaseEncoding), enc)
            elif route == "encode":
                res = enc.encode(EncodedArray(np.array([65 if 65 in [ord(a) for a in alphabet] else ord(alphabet[0]), b], dtype=np.uint8), BaseEncoding))
            else:
                res = bnp.as_encoded_array([alphabet[0], chr(b), ""], enc)
            outcome = "accepted"
        except EncodingError:
            outcome = "EncodingError"
        except Exception as e:
            outcome = "other:" + type(e).__name__
        key = (name, route, b)
        if should:
            ok = outcome == "accepted"
            if ok:
                txt = "".join(decode_text(res)) if route != "list" else decode_text(res)[1]
                want = chr(b).upper()
                got = txt[-1:] if route == "encode" else txt
                ctx.check("decode(encode)=upper", got == want, "roundtrip-differs:%s" % name, "decode(encode(%r)) gave %r, expected %r (%s via %s)" % (chr(b), got, want, name, route),
                          {"encoding": name, "byte": b, "route": route, "got": got}, key)
            else:
                ctx.check("accept-member", False, "member-rejected:%s" % name, "byte %r belongs to alphabet of %s but %s" % (chr(b), name, outcome),
                          {"encoding": name, "byte": b, "route": route, "outcome": outcome}, key)
        else:
            if outcome == "accepted":
                got = decode_text(res)
                kind = "nonletter+32" if (b >= 32 and chr(b - 32) in alphabet and not chr(b - 32).isalpha()) else "other"
                ctx.check("reject-foreign", False, "foreign-accepted:%s" % kind, "byte %r (0x%02x) is not in the alphabet of %s but was accepted as %r" % (chr(b), b, name, got),
                          {"encoding": name, "byte": b, "route": route, "decoded": got}, key)
            elif outcome == "EncodingError":
                ctx.judged("reject-foreign", key)
            else:
                ctx.check("reject-foreign", False, "foreign-wrong-exception:%s" % outcome, "byte 0x%02x for %s raised %s, not EncodingError" % (b, name, outcome),
                          {"encoding": name, "byte": b, "route": route}, key)

    items = [(n, e, b, r) for (n, e) in encs for b in range(256) for r in ("str", "array", "encode", "list") if not (r in ("str", "list") and b >= 128)]
    for it in ctx.mine(items):
        ctx.run_case(sweep, it)
    ctx.sample({"byte_sweep_item": ["ACGTEncoding", 97, "str"], "means": "encode 'a' with ACGTEncoding via as_encoded_array(str)"})

    # ---------------- A2. characters beyond one byte, and the same text encoded again after the first result was edited --------
    def non_ascii(item):
        name, enc, cp, route = item
        alphabet = [c.upper() for c in enc.get_alphabet()]
        ch = chr(cp)
        try:
            if route == "str":
                res = bnp.as_encoded_array(alphabet[0] + ch + alphabet[-1], enc)
            elif route == "list":
                res = bnp.as_encoded_array([ch + alphabet[0] * 2, "", alphabet[-1] + alphabet[0]], enc)
            else:
                res = enc.encode(alphabet[0] + ch)
            outcome = "accepted"
        except Exception as e:
            outcome = type(e).__name__
        ctx.count("non_ascii_sweep")
        if outcome == "accepted":
            ctx.check("reject-foreign", False, "foreign-accepted:code-point-beyond-ascii:%s" % route, "U+%04X is not in the alphabet of %s but text containing it was accepted as %r" % (cp, name, decode_text(res)),
                      {"encoding": name, "code_point": cp, "route": route, "decoded": decode_text(res)}, (name, route, cp))
        else:
            ctx.judged("reject-foreign", (name, route, cp))

    def encode_again(item):
        name, enc = item
        alphabet = [c for c in enc.get_alphabet()]
        for text in (alphabet[0], "".join(alphabet[:3]), "".join(alphabet[:2]).lower() if alphabet[0].isalpha() else "".join(alphabet[:2])):
            for route in ("as_encoded_array", "encode"):
                mkx = (lambda: bnp.as_encoded_array(text, enc)) if route == "as_encoded_array" else (lambda: enc.encode(text))
                first = mkx()
                want = "".join(decode_text(first))
                try:
                    first[0] = alphabet[-1]          # the caller edits its own array
                except Exception:
                    pass
                second = "".join(decode_text(mkx()))
                ctx.check("decode(encode)=upper", second == text.upper() and want == text.upper(), "roundtrip-differs-after-an-earlier-result-was-edited:%s" % route, "%s of %r gave %r after the first result had been edited in place" % (route, text, second),
                          {"encoding": name, "text": text, "route": route, "got": second}, (name, text, route, "again"))

    na_items = []
    for (n, e) in encs:
        al = [c.upper() for c in e.get_alphabet()]
        for cp in sorted({128, 200, 233, 255, 256 + ord(al[0]), 256 + ord(al[-1]), 512 + ord(al[0]), 0x263A, 0x1F600, 65536 + ord(al[0])}):
            for route in ("str", "list", "encode"):
                na_items.append((n, e, cp, route))
    for it in ctx.mine(na_items):
        ctx.run_case(non_ascii, it)
    for it in ctx.mine(list(encs)):
        ctx.run_case(encode_again, it)

    # ---------------- B. foreign byte injected at every position of a valid string/list --------
    def inject(item):
        name, enc, base, pos, b, as_list = item
        alphabet = [c.upper() for c in enc.get_alphabet()]
        s = base[:pos] + chr(b) + base[pos:]
        try:
            if as_list:
                rows = ["", base, s, base]
                res = bnp.as_encoded_array(rows, enc)
            else:
                res = bnp.as_encoded_array(s, enc)
            outcome = "accepted"
        except EncodingError:
            outcome = "EncodingError"
        except Exception as e:
            outcome = "other:" + type(e).__name__
        should = accepts(alphabet, b)
        key = (name, s, as_list)
        if should:
            if outcome == "accepted":
                got = decode_text(res)
                want = [r.upper() for r in rows] if as_list else [s.upper()]
                ctx.check("decode(encode)=upper", got == want, "roundtrip-differs:%s" % name, "decode(encode(%r)) gave %r" % (rows if as_list else s, got),
                          {"encoding": name, "text": rows if as_list else s, "got": got}, key)
            else:
                ctx.check("accept-member", False, "member-rejected:%s" % name, "valid text %r rejected by %s: %s" % (s, name, outcome), {"encoding": name, "text": s}, key)
        else:
            if outcome == "accepted":
                kind = "nonletter+32" if (b >= 32 and chr(b - 32) in alphabet and not chr(b - 32).isalpha()) else "other"
                ctx.check("reject-foreign", False, "foreign-accepted:%s" % kind, "text %r contains %r which is not in %s but was accepted as %r" % (s, chr(b), name, decode_text(res)),
                          {"encoding": name, "text": s, "decoded": decode_text(res)}, key)
            else:
                ctx.check("reject-foreign", outcome == "EncodingError", "foreign-wrong-exception:%s" % outcome, "text %r for %s raised %s" % (s, name, outcome), {"encoding": name, "text": s}, key)

    items = []
    for name, enc in encs:
        alphabet = [c.upper() for c in enc.get_alphabet()]
        L = ctx.pick(2, 3)
        bases = ["".join(p) for l in range(0, L + 1) for p in itertools.product(alphabet[:3], repeat=l)]
        for base in bases:
            for pos in range(len(base) + 1):
                for b in range(1, 128):
                    if ctx.quick and (b * 7 + pos + len(base)) % 3:
                        continue
                    items.append((name, enc, base, pos, b, (b + pos) % 2 == 0))
    for it in ctx.mine(items):
        ctx.run_case(inject, it)

    # ---------------- C. re-targeting already encoded data --------------------------------------
    def retarget(item):
        (sname, senc), (tname, tenc), text, route, ragged = item
        if ragged:
            rows = [text, "", text[::-1]]
            src = bnp.as_encoded_array(rows, senc)
            want = [r.upper() for r in rows]
        else:
            src = bnp.as_encoded_array(text, senc)
            want = [text.upper()]
        before = decode_text(src)
        if route in ("setitem", "list-of-elements", "list-of-rows") and (ragged or not text):
            return
        try:
            if route == "setitem":
                # already-encoded data reaches another alphabet by item assignment: same letters afterwards, or an error and an untouched receiver
                talpha = [c.upper() for c in tenc.get_alphabet()]
                recv_text = (talpha[0] * (len(text) + 2))
                recv = bnp.as_encoded_array(recv_text, tenc)
                try:
                    recv[1:1 + len(text)] = src
                except Exception:
                    now = "".join(decode_text(recv))
                    ctx.check("retarget-same-text-or-raise", now == recv_text, "retarget-changed-text:setitem-raised-but-modified", "assignment of %s data %r into %s array raised but left %r" % (sname, text, tname, now),
                              {"source": sname, "target": tname, "text": text, "got": now}, (sname, tname, text, route))
                    ctx.count("retarget_raised")
                    return
                res = recv
                want = [recv_text[0] + text.upper() + recv_text[-1]]
            elif route == "list-of-elements":
                # single encoded elements (what iterating an encoded array gives) of two alphabets in one Python list
                talpha = [c.upper() for c in tenc.get_alphabet()]
                other = bnp.as_encoded_array("".join(talpha[:3]), tenc)
                res = bnp.as_encoded_array(list(src) + list(other))
                want = [text.upper() + "".join(talpha[:3])]
            elif route == "list-of-rows":
                # whole encoded rows of two alphabets in one Python list, the odd one in the middle (what joining rows taken from two tables gives)
                talpha = [c.upper() for c in tenc.get_alphabet()]
                other = bnp.as_encoded_array("".join(talpha[:3][::-1]), tenc)
                res = bnp.as_encoded_array([src, other, src] if len(text) % 2 else [src, src, other, src])
                want = [text.upper(), "".join(talpha[:3][::-1]), text.upper()] if len(text) % 2 else [text.upper(), text.upper(), "".join(talpha[:3][::-1]), text.upper()]
            elif route == "call":
                res = tenc(src)             # the call form of an encoding
            elif route == "as_encoded_array":
                res = bnp.as_encoded_array(src, tenc)
            elif route == "change_encoding":
                res = bnp.change_encoding(src, tenc)
            else:
                res = tenc.encode(src)
            outcome = "ok"
        except Exception as e:
            outcome = "raised:" + type(e).__name__
        key = (sname, tname, text, route, ragged)
        if outcome == "ok":
            got = decode_text(res) if isinstance(res, (EncodedArray, EncodedRaggedArray)) else None
            ok = got == want
            ctx.check("retarget-same-text-or-raise", ok, "retarget-changed-text:%s" % route, "%s data %r re-targeted to %s via %s decodes to %r" % (sname, want, tname, route, got),
                      {"source": sname, "target": tname, "text": want, "route": route, "got": got}, key)
            ctx.count("retarget_ok")
        else:
            ctx.judged("retarget-same-text-or-raise", key)
            ctx.count("retarget_raised")
        after = decode_text(src)
        if after != before:
            ctx.violation("retarget-mutated-source:%s" % route, "re-targeting changed the source array", {"source": sname, "target": tname, "text": want, "after": after})

    items = []
    for (sname, senc) in encs:
        alphabet = [c.upper() for c in senc.get_alphabet()]
        L = ctx.pick(3 if len(alphabet) <= 5 else 2, 5 if len(alphabet) <= 5 else 3)
        texts = ["".join(p) for l in range(0, L + 1) for p in itertools.product(alphabet, repeat=l)]
        for (tname, tenc) in encs:
            if tname == sname:
                continue
            for t in texts:
                for route in ("as_encoded_array", "change_encoding", "encode", "call", "setitem", "list-of-elements", "list-of-rows"):
                    if route in ("setitem", "list-of-elements", "list-of-rows") and len(t) > 2:
                        continue
                    items.append(((sname, senc), (tname, tenc), t, route, len(t) % 2 == 1 and route not in ("encode", "call", "setitem", "list-of-elements", "list-of-rows")))
    if ctx.quick and len(items) > 400000:
        items = [it for i, it in enumerate(items) if i % 3 == ctx.seed % 3]
    for it in ctx.mine(items):
        ctx.run_case(retarget, it)
    ctx.sample({"retarget_item": ["ACGTEncoding", "ACTGEncoding", "ACG", "as_encoded_array"]})

    # ---------------- C2. the same object re-targeted / decoded again after it was edited in place ---------------------------------
    def again_after_edit(item):
        (sname, senc), (tname, tenc), ragged, route = item
        import random
        r = random.Random(hash((sname, tname, ragged, route, ctx.seed)) & 0xffffffff)
        salpha = [c.upper() for c in senc.get_alphabet()]
        talpha = [c.upper() for c in tenc.get_alphabet()] if tenc is not BaseEncoding else []
        common = [c for c in salpha if c in talpha] if tenc is not BaseEncoding else list(salpha)
        if len(common) < 2:
            return
        rows = ["".join(r.choice(common) for _ in range(r.randint(2, 6))) for _ in range(3 if ragged else 1)]
        x = bnp.as_encoded_array(rows if ragged else rows[0], senc)
        f = {"change_encoding": lambda a: bnp.change_encoding(a, tenc), "as_encoded_array": lambda a: bnp.as_encoded_array(a, tenc), "decode": lambda a: senc.decode(a),
             "to_string/tolist": lambda a: a.tolist() if ragged else a.to_string()}[route]
        try:
            first = f(x)
        except Exception:
            ctx.count("again_after_edit_refused")
            return          # this pair is not re-targeted this way: nothing to repeat
        new = next(c for c in common if c != rows[0][1])
        if ragged:
            x[0, 1] = new
        else:
            x[1] = new
        rows[0] = rows[0][:1] + new + rows[0][2:]
        try:
            second = f(x)
        except Exception as e:
            ctx.check("again-after-edit", False, "again-after-edit/raised-the-second-time:%s" % route, "%s of a %s array worked, and raised %s after one letter of the array was replaced by another letter of the alphabet" % (route, sname, type(e).__name__),
                      {"source": sname, "target": tname, "rows": rows, "route": route}, (sname, tname, ragged, route))
            return
        got = [t.upper() for t in (second if isinstance(second, list) else [second] if isinstance(second, str) else decode_text(second))]
        if not ragged:
            got = ["".join(got)]
        ctx.check("again-after-edit", got == [t.upper() for t in rows], "again-after-edit/old-text:%s" % route, "%s of a %s array after x[..] = %r gave %r, the array now reads %r" % (route, sname, new, got, rows),
                  {"source": sname, "target": tname, "rows": rows, "route": route, "got": got}, (sname, tname, ragged, route))
        ctx.count("again_after_edit")

    items2 = [((sn, se), (tn, te), rg, rt) for (sn, se) in encs for (tn, te) in list(encs) + [("BaseEncoding", BaseEncoding)] if tn != sn for rg in (False, True)
              for rt in ("change_encoding", "as_encoded_array", "decode", "to_string/tolist")]
    for it in ctx.mine(items2):
        ctx.run_case(again_after_edit, it)

    # ---------------- C3. k-mer encodings over the alphabets: text of k letters -> one code -> the same text, for every k whose codes fit 63 bits -------
    def kmer_text(item):
        from bionumpy.encodings.kmer_encodings import KmerEncoding
        (name, enc), k, seed_ = item
        import random
        r = random.Random(seed_)
        alphabet = [c.upper() for c in enc.get_alphabet()]
        hi = alphabet[-1] * k                      # the largest code: every digit is the last letter
        texts = [hi, "".join(r.choice(alphabet) for _ in range(k)), alphabet[0] * (k - 1) + alphabet[-1]]
        ke = KmerEncoding(enc, k)
        for text in texts:
            for route in ("as_encoded_array(str)", "as_encoded_array(list)", "encode"):
                try:
                    if route == "as_encoded_array(str)":
                        got = bnp.as_encoded_array(text, ke).to_string()
                    elif route == "as_encoded_array(list)":
                        got = bnp.as_encoded_array([text, texts[1]], ke)[0].to_string()
                    else:
                        e_ = ke.encode(text)
                        got = ke.to_string(np.asarray(e_.raw() if hasattr(e_, "raw") else e_).ravel()[0])
                except Exception as e:
                    got = "raised %s" % type(e).__name__
                if isinstance(got, list):
                    got = "".join(got)
                ctx.check("kmer-text", str(got).upper() == text, "kmer-encoding/text-differs:%s" % route.split("(")[0], "%d-mer %r over %s came back as %r via %s" % (k, text, name, got, route),
                          {"encoding": name, "k": k, "text": text, "route": route, "got": str(got)}, (name, k, text, route))
        ctx.count("kmer_texts")

    import math
    kitems = [((n, e), k, ctx.seed * 977 + i) for i, (n, e) in enumerate(encs) if not n.startswith(("Strand", "Cigar", "Digit")) for k in range(1, 32)
              if k * math.log2(len(e.get_alphabet())) < 62.9]
    for it in ctx.mine(kitems):
        ctx.run_case(kmer_text, it)

    # ---------------- D. numeric and label encodings ---------------------------------------------
    def numeric(_):
        from bionumpy.encodings import QualityEncoding
        vals = list(range(0, 94))
        txt = "".join(chr(33 + v) for v in vals)
        enc = QualityEncoding.encode(bnp.as_encoded_array(txt))
        ctx.check("numeric-roundtrip", np.asarray(enc).tolist() == vals, "quality-encoding/encode", "QualityEncoding.encode differs from ord-33", {"got": np.asarray(enc).tolist()[:10]}, "q-enc")
        dec = QualityEncoding.decode(np.array(vals, dtype=np.uint8))
        ctx.check("numeric-roundtrip", bytes(np.asarray(dec, dtype=np.uint8)).decode() == txt, "quality-encoding/decode", "QualityEncoding.decode differs", {}, "q-dec")
        rows = ["!#5", "", "~I"]
        r = QualityEncoding.encode(bnp.as_encoded_array(rows))
        ctx.check("numeric-roundtrip", r.tolist() == [[ord(c) - 33 for c in s] for s in rows], "quality-encoding/ragged-shape", "ragged quality encode changed rows", {"got": r.tolist()}, "q-rag")

    def writable_source(case):
        # already base-encoded text in a buffer the caller owns, presented to a digit / quality encoding: the codes are right and the caller's text is still its text
        from bionumpy.encodings import DigitEncoding, QualityEncoding
        import random
        r = random.Random(case)
        for ename_, enc_, alpha_, off_ in (("DigitEncoding", DigitEncoding, "0123456789", 48), ("QualityEncoding", QualityEncoding, "".join(chr(33 + q) for q in range(0, 60)), 33)):
            rows_ = ["".join(r.choice(alpha_) for _ in range(r.randint(1, 6))) for _ in range(r.randint(1, 3))]
            for shape_ in ("flat", "ragged"):
                src = (bnp.as_encoded_array(rows_[0]) if shape_ == "flat" else bnp.as_encoded_array(rows_)).copy()
                text0 = decode_text(src)
                for route_ in ("as_encoded_array", "encode"):
                    try:
                        res_ = bnp.as_encoded_array(src, enc_) if route_ == "as_encoded_array" else enc_.encode(src)
                    except Exception:
                        ctx.count("writable_source_refused")
                        continue
                    raw_ = res_.raw() if hasattr(res_, "raw") else res_
                    codes = [int(v) for v in np.asarray(raw_.ravel() if hasattr(raw_, "ravel") else raw_).tolist()]
                    wantc = [ord(ch) - off_ for t_ in (rows_[:1] if shape_ == "flat" else rows_) for ch in t_]
                    ctx.check("numeric-roundtrip", codes == wantc, "numeric-encoding/codes:%s" % ename_, "%s of %r gave codes %r" % (route_, text0, codes[:8]), {"encoding": ename_, "text": text0, "route": route_}, (ename_, tuple(text0), route_, "codes"))
                    ctx.check("numeric-roundtrip", decode_text(src) == text0, "numeric-encoding/source-text-changed:%s" % ename_, "after %s(%s) the caller's text %r reads %r" % (route_, ename_, text0, decode_text(src)), {"encoding": ename_, "text": text0, "route": route_}, (ename_, tuple(text0), route_, "src"))
        ctx.count("writable_sources")

    def labels(_):
        from bionumpy.encodings.string_encodings import StringEncoding
        labs = ["chr1", "chr10", "chr2", "chrX", "a"]
        enc = StringEncoding(labs)
        e = enc.encode(bnp.as_encoded_array(labs[::-1] + labs))
        dec = enc.decode(e).tolist()
        ctx.check("label-roundtrip", dec == labs[::-1] + labs, "string-encoding/roundtrip", "StringEncoding round trip differs: %r" % dec, {"got": dec}, "lab")
        for bad in ("chr", "chr11", "", "CHR1", "chr1 "):
            try:
                enc.encode(bnp.as_encoded_array(["chr1", bad]))
                ctx.check("label-reject", False, "string-encoding/non-label-accepted", "non-label %r accepted by StringEncoding" % bad, {"label": bad}, ("lab", bad))
            except Exception:
                ctx.judged("label-reject", ("lab", bad))

    # ---------------- E. decode() of fresh row selections (the object handed to decode has not been looked at before) -----------
    def decode_selection(case):
        import random
        r = random.Random(case["seed"])
        name, enc = encs[case["enc"]]
        alphabet = list(enc.get_alphabet())
        n = r.randint(1, 7)
        one_len = r.choice([1, 2, 4]) if r.random() < 0.3 else None        # rows of one length (reads, barcodes) in a third of the cases
        rows = ["".join(r.choice(alphabet) if r.random() < 0.8 else r.choice(alphabet).lower() for _ in range(one_len or r.choice([0, 1, 2, 3, 5, 9]))) for _ in range(n)]
        rows = [x if all(accepts([c.upper() for c in alphabet], ord(ch)) for ch in x) else x.upper() for x in rows]
        x = bnp.as_encoded_array(rows, enc)
        if r.random() < 0.25:
            # the array is put together from its own rows handed over as a Python list of encoded rows (empty rows among them)
            x2 = bnp.as_encoded_array([x[i] for i in range(n)]) if n else x
            got2 = decode_text(x2) if n else []
            ctx.check("decode-selection", got2 == [t.upper() for t in rows], "list-of-encoded-rows-differs", "as_encoded_array(list of the %d rows of %r) reads %r" % (n, rows, got2), {"encoding": name, "rows": rows, "got": got2, "seed": case["seed"]},
                      (name, "list-of-rows", tuple(rows)) if any(len(t) == 0 for t in rows) and any(rows) else None)
        kind = r.choice(["whole", "reverse", "perm", "mask", "repeat", "tail", "step", "single-row", "flat"])
        if kind == "whole":
            idx = list(range(n)); sel = x
        elif kind == "reverse":
            idx = list(range(n))[::-1]; sel = x[::-1]
        elif kind == "perm":
            idx = list(range(n)); r.shuffle(idx); sel = x[np.array(idx)]
        elif kind == "mask":
            m = [r.random() < 0.6 for _ in range(n)]
            idx = [i for i in range(n) if m[i]]; sel = x[np.array(m)]
        elif kind == "repeat":
            idx = [r.randrange(n) for _ in range(r.randint(1, 6))]; sel = x[np.array(idx)]
        elif kind == "tail":
            k = r.randrange(n); idx = list(range(k, n)); sel = x[k:]
        elif kind == "step":
            idx = list(range(0, n, 2)); sel = x[::2]
        elif kind == "single-row":
            k = r.randrange(n); idx = [k]; sel = x[k]
        else:
            idx = list(range(n)); sel = x.ravel()
        want = [rows[i].upper() for i in idx]
        if kind in ("single-row", "flat"):
            want = ["".join(want)]
        via = "decode"
        if r.random() < 0.35 and kind not in ("single-row", "flat"):
            from bionumpy.encoded_array import from_encoded_array
            via = "from_encoded_array"
            got_fe = from_encoded_array(sel)       # nothing has touched `sel` before this call
            got_fe = [str(t).upper() for t in (got_fe if isinstance(got_fe, list) else [got_fe])]
            ctx.check("decode-selection", got_fe == want, "decode-selection-differs:%s:from_encoded_array" % kind, "from_encoded_array of a %s selection of %r gave %r, expected %r" % (kind, rows, got_fe, want),
                      {"encoding": name, "rows": rows, "selection": kind, "idx": idx, "got": got_fe, "want": want, "seed": case["seed"]}, (name, kind, tuple(want), "fe") if sum(map(len, want)) else None)
        dec = enc.decode(sel)       # (nothing has touched `sel` before this call unless from_encoded_array was tried first)
        got = decode_text(dec)
        if kind in ("single-row", "flat"):
            got = ["".join(got)]
        ctx.check("decode-selection", got == want, "decode-selection-differs:%s" % kind, "%s.decode of a %s selection of %r gave %r, expected %r" % (name, kind, rows, got, want),
                  {"encoding": name, "rows": rows, "selection": kind, "idx": idx, "got": got, "want": want, "seed": case["seed"]}, (name, kind, tuple(want)) if sum(map(len, want)) else None)
        ctx.count("decode_selection")
        if kind not in ("single-row", "flat") and r.random() < 0.3 and sum(map(len, want)):
            # a copy of a fresh selection, then edited: the selection still decodes to its own text (the copy does not share its letters)
            x3 = bnp.as_encoded_array(rows, enc)
            sel3 = {"whole": lambda: x3[:], "reverse": lambda: x3[::-1], "perm": lambda: x3[np.array(idx)], "mask": lambda: x3[np.array([i in idx for i in range(n)])], "repeat": lambda: x3[np.array(idx)],
                    "tail": lambda: x3[idx[0]:] if idx else x3[n:], "step": lambda: x3[::2]}[kind]()
            cp = sel3.copy()            # nothing has touched sel3 before the copy
            i3 = next(i_ for i_, t_ in enumerate(want) if t_)
            other_letter = next((a_ for a_ in alphabet if a_.upper() != want[i3][0]), None)
            if other_letter is not None:
                cp[i3, 0] = other_letter
                now3 = [t_.upper() for t_ in decode_text(sel3)]
                ctx.check("decode-selection", now3 == want, "copy-of-a-selection-shares-its-letters:%s" % kind, "after editing a copy of a %s selection the selection reads %r, it was %r" % (kind, now3, want), {"encoding": name, "rows": rows, "selection": kind, "seed": case["seed"]}, (name, kind, tuple(want), "cp"))
                ctx.count("copies_of_fresh_selections")
        again = decode_text(enc.decode(sel))
        if kind in ("single-row", "flat"):
            again = ["".join(again)]
        ctx.check("decode-selection", again == want, "decode-selection-differs-second-time:%s" % kind, "second decode of the same selection differs", {"encoding": name, "rows": rows, "got": again, "want": want, "seed": case["seed"]}, None)
        if ctx.shard % 2 == 0 and name.startswith(("ACGT", "ACTG", "custom")):
            return
        # numeric ragged selections
        from bionumpy.encodings import QualityEncoding
        from npstructures import RaggedArray
        lst = [[r.randrange(0, 60) for _ in range(r.choice([0, 1, 3, 4]))] for _ in range(n)]
        q = RaggedArray(lst, dtype=np.uint8)
        if r.random() < 0.5:
            qidx = list(range(n))[::-1]; qsel = q[::-1]
        else:
            qidx = [r.randrange(n) for _ in range(3)]; qsel = q[np.array(qidx)]
        d = QualityEncoding.decode(qsel)    # numeric encoding: value + 33, row for row
        gotq = [[int(v) for v in row] for row in d.tolist()]
        wantq = [[v + 33 for v in lst[i]] for i in qidx]
        ctx.check("decode-selection", gotq == wantq, "decode-selection-differs:quality-ragged", "QualityEncoding.decode of a row selection gave %r, expected %r" % (gotq, wantq),
                  {"got": gotq, "want": wantq, "seed": case["seed"]}, ("q", repr(wantq)) if sum(map(len, wantq)) else None)

    for i in range(ctx.share(ctx.pick(6000, 60000))):
        sd = ctx.seed * 1000003 + ctx.shard * 100003 + i
        ctx.run_case(decode_selection, {"seed": sd, "enc": i % len(encs)})
    ctx.floor("decode_selection", 50)

    # ---------------- F. long texts: lengths at and next to block sizes (the text is what was given, letter for letter, at any length) -----
    def long_text(case):
        import random
        from bnpmon.util import boundary_length
        r = random.Random(case["seed"])
        name, enc = encs[case["enc"]]
        alphabet = list(enc.get_alphabet())
        L = boundary_length(r, 1 << 18)
        nprng = np.random.default_rng(case["seed"])
        codes = nprng.integers(0, len(alphabet), size=L)
        text = "".join(np.array(alphabet)[codes]) if L else ""
        want = text.upper()
        x = bnp.as_encoded_array(text, enc)
        routes = {"to_string": lambda: x.to_string(), "decode": lambda: enc.decode(x).to_string(), "change_encoding": lambda: bnp.change_encoding(x, BaseEncoding).to_string(),
                  "row-of-a-ragged-array": lambda: bnp.as_encoded_array(["", text, alphabet[0]], enc).tolist()[1], "str-of-slices": lambda: x[:L // 2].to_string() + x[L // 2:].to_string()}
        for rt, f in routes.items():
            got = f().upper()
            diff = next((i for i, (a, b) in enumerate(zip(got, want)) if a != b), None)
            ctx.check("long-text", got == want, "long-text-differs:%s" % rt, "%s text of %d letters came back with %d letters via %s (first difference at %r)" % (name, L, len(got), rt, diff),
                      {"encoding": name, "length": L, "route": rt, "got_length": len(got), "first_difference": diff, "seed": case["seed"]}, (name, rt, L))
        ctx.count("long_texts")

    for i in range(ctx.share(ctx.pick(160, 1600))):
        ctx.run_case(long_text, {"seed": ctx.seed * 7919 + ctx.shard * 104729 + i, "enc": (i + ctx.shard) % len(encs)})
    ctx.floor("long_texts", 4)

    for i in range(ctx.share(ctx.pick(160, 2000))):
        ctx.run_case(writable_source, ctx.seed * 131 + ctx.shard * 17 + i)
    if ctx.shard == 0:
        ctx.run_case(numeric, "numeric")
        ctx.run_case(labels, "labels")
    ctx.floor("byte_sweep", ctx.pick(100, 100))
    ctx.floor("retarget_ok", 10)
    ctx.floor("retarget_raised", 10)


def replay(ctx, w):
    pass
