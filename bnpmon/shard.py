"""Shard entry point: python -m bnpmon.shard <prop> <tier> <seed> <shard> <nshards> <outfile> [replayfile]"""
import importlib
import json
import os
import shutil
import sys
import tempfile
import warnings


def main():
    prop, tier, seed, shard, nshards, out = sys.argv[1:7]
    replay = sys.argv[7] if len(sys.argv) > 7 else None
    seed, shard, nshards = int(seed), int(shard), int(nshards)
    warnings.simplefilter("ignore")
    from bnpmon import VERIF_ROOT, REPO_ROOT
    from bnpmon.ctx import Ctx
    import bionumpy
    lib = os.path.realpath(os.path.dirname(bionumpy.__file__))
    want = os.path.realpath(os.path.join(REPO_ROOT, "bionumpy"))
    if lib != want:
        print("shard: bionumpy imported from %s, expected %s" % (lib, want), file=sys.stderr)
        sys.exit(3)
    anchors = []
    with open(os.path.join(VERIF_ROOT, "properties.jsonl")) as f:
        for line in f:
            d = json.loads(line)
            if d["id"] == prop:
                anchors = [os.path.join(REPO_ROOT, p) for p in d["anchors"]["files"]]
    tmpdir = tempfile.mkdtemp(prefix="bnpmon-%s-%d-" % (prop, shard), dir=os.environ.get("BNPMON_TMP") or None)
    ctx = Ctx(prop, tier, seed, shard, nshards, tmpdir, anchors)
    try:
        wl = importlib.import_module("bnpmon.workloads." + prop)
        if os.environ.get("BNPMON_NO_PATHS") != "1":
            # import everything the workload needs before instrumenting code objects
            if hasattr(wl, "preload"):
                wl.preload()
            ctx.paths.start()
        if os.environ.get("BNPMON_NO_PRELUDE") != "1":
            import random
            from bnpmon.util import process_history_prelude
            ctx.count("process_history_prelude_calls", process_history_prelude(random.Random(seed * 31 + shard)))
        wl.run(ctx)
        ctx.meta.setdefault("rule", getattr(wl, "RULE", ""))
        ctx.meta.setdefault("assumptions", getattr(wl, "ASSUMPTIONS", []))
        ctx.meta.setdefault("exhaustive_core", getattr(wl, "EXHAUSTIVE_CORE", None))
    finally:
        shutil.rmtree(tmpdir, ignore_errors=True)
    with open(out, "w") as f:
        json.dump(ctx.dump(), f)


if __name__ == "__main__":
    main()
