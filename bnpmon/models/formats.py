"""R1 — text-format grammars.  Records are drawn first (typed values) and rendered second, so the ground truth of a
file is the record list that generated it; no reference parser is involved.  This module imports nothing from bionumpy.

A *record* is a dict: {"values": {field: python value}, "texts": [text of each column/line part in file order]}.
A *file case* is a dict: {"fmt", "header", "records", "raws" (bytes of each record incl. line end), "data" (bytes), "eol",
"final_newline", ...}.
"""
import math
import string

IDCHARS = string.ascii_letters + string.digits + "_.-"
DNA = "ACGT"
PROFILES = {
    # (string lengths to draw from, max digits of ints, max records)
    "tiny": {"slens": [1, 2, 5], "digits": [1, 2, 5], "seqlens": [1, 2, 5]},
    "normal": {"slens": [1, 2, 3, 5, 8, 13], "digits": [1, 1, 2, 3, 5, 7, 9, 10], "seqlens": [1, 2, 3, 5, 8, 20, 41]},
    "wide": {"slens": [1, 1, 2, 3, 8, 30, 90], "digits": [1, 1, 2, 4, 9, 10, 10, 12, 15, 18], "seqlens": [1, 2, 3, 9, 40, 79, 80, 81, 161]},
}


def ident(rng, prof, chars=IDCHARS, first=string.ascii_letters):
    n = rng.choice(PROFILES[prof]["slens"])
    return rng.choice(first) + "".join(rng.choice(chars) for _ in range(n - 1))


def seq(rng, prof, alphabet=DNA, lens=None):
    n = rng.choice(lens or PROFILES[prof]["seqlens"])
    return "".join(rng.choice(alphabet) for _ in range(n))


def uint(rng, prof, lo=0):
    d = rng.choice(PROFILES[prof]["digits"])
    if d == 1:
        return rng.randint(lo, 9)
    return rng.randint(10 ** (d - 1), 10 ** d - 1)


def spell_int(v, rng, noncanon):
    """A valid spelling of integer v; canonical unless noncanon."""
    t = str(v)
    if noncanon and rng.random() < 0.5:
        r = rng.random()
        if v >= 0 and r < 0.5:
            t = "0" * rng.randint(1, 3) + t
        elif v >= 0:
            t = "+" + t
    return t


def gen_float(rng, prof):
    r = rng.random()
    if r < 0.04:
        return rng.choice([0.0, -0.0])         # both zeros: equal as numbers, different as text and as doubles
    if r < 0.3:
        return float(rng.randint(0, 1000))
    if r < 0.7:
        return round(rng.uniform(0, 1000), rng.randint(1, 4))
    if r < 0.85:
        return round(rng.uniform(-50, 50), 3)
    if r < 0.88:
        # extreme magnitudes: three-digit exponents, the largest doubles, subnormals
        return rng.choice([1e-100, 2.5e-310, 5e-324, 1.7e+308, 1e100, 2.2250738585072014e-308, 1e-308, 1.5e300, -3e-200]) * rng.choice([1, 1, -1])
    if r < 0.92:
        # full-precision doubles (16-17 significant digits) over several magnitudes: repr() gives long positional or scientific text
        return rng.uniform(0.1, 1) * 10.0 ** rng.randint(-6, 4) * rng.choice([1, 1, -1])
    return float("%d.%de%d" % (rng.randint(1, 9), rng.randint(0, 99), rng.randint(-8, 8)))


def spell_float(x, rng, noncanon):
    if noncanon and rng.random() < 0.5 and x == int(x) and abs(x) < 10 ** 6:
        iv = int(x)
        c = rng.random()
        if iv == 0 and math.copysign(1.0, x) < 0:
            return "-0" if c < 0.4 else "-0.00"
        if c < 0.4:
            return str(iv)
        if c < 0.7 and iv != 0 and iv % 10 == 0:
            z = len(str(abs(iv))) - len(str(abs(iv)).rstrip("0"))
            return "%de%d" % (iv // 10 ** z, z)
        return "%d.00" % iv
    if noncanon and rng.random() < 0.25 and abs(x) < 1000:
        t = "%.*f" % (rng.choice([18, 19, 20, 22]), x)          # plain notation with many decimals (e.g. '%.20f' output)
        if float(t) == x:
            return t
    t = repr(float(x))
    if noncanon and rng.random() < 0.3 and (t.startswith("0.") or t.startswith("-0.")) and "e" not in t and x != 0:
        return t.replace("0.", ".", 1)          # '.5', '-.25': no digit before the decimal point
    return t


class Format:
    name = ""
    suffix = ""
    buffer = None          # name of an explicit bionumpy buffer type (attribute of bionumpy / bionumpy.io.*), else by suffix
    lines_per_entry = 1    # None: variable (wrapped FASTA)
    lazy = True            # read lazily by default
    fields = ()            # dataclass field names in column order
    comment_headers = False

    def header(self, rng, style):
        return ""

    def gen_record(self, rng, prof, style, i):
        raise NotImplementedError

    def render(self, rec, eol):
        return "\t".join(rec["texts"]) + eol

    def expected(self, records):
        cols = {f: [] for f in self.fields}
        for r in records:
            for f in self.fields:
                cols[f].append(r["values"][f])
        return cols

    # canonical serialisation of typed values (C03) — what the library's writer should emit for these values
    def canonical(self, rec):
        raise NotImplementedError


class Fasta2(Format):
    name = "fasta2"
    suffix = ".fa"
    buffer = "TwoLineFastaBuffer"
    lines_per_entry = 2
    fields = ("name", "sequence")
    alphabet = "ACGTNacgtn"

    def gen_record(self, rng, prof, style, i):
        name = "r%d%s" % (i, ident(rng, prof))
        if style.get("descriptions") and rng.random() < 0.5:
            name += " " + ident(rng, prof)
        s = seq(rng, prof, self.alphabet)
        return {"values": {"name": name, "sequence": s}, "texts": [name, s]}

    def render(self, rec, eol):
        return ">" + rec["texts"][0] + eol + rec["texts"][1] + eol


class FastaWrapped(Fasta2):
    name = "fastaw"
    suffix = ".fa"
    buffer = None   # MultiLineFastaBuffer by suffix
    lines_per_entry = None
    lazy = False

    def gen_record(self, rng, prof, style, i):
        r = super().gen_record(rng, prof, style, i)
        r["wrap"] = style.get("wrap") or rng.randint(1, max(2, len(r["values"]["sequence"]) + 1))
        return r

    def render(self, rec, eol):
        s, w = rec["texts"][1], rec["wrap"]
        lines = [s[j:j + w] for j in range(0, len(s), w)] or [""]
        return ">" + rec["texts"][0] + eol + "".join(l + eol for l in lines)


class Fastq(Format):
    name = "fastq"
    suffix = ".fq"
    lines_per_entry = 4
    fields = ("name", "sequence", "quality")

    def gen_record(self, rng, prof, style, i):
        name = "q%d%s" % (i, ident(rng, prof))
        s = seq(rng, prof, "ACGTN")
        q = [rng.randint(0, 60) for _ in s]
        plus = "+" + (name if style.get("plusname") and rng.random() < 0.5 else "")
        return {"values": {"name": name, "sequence": s, "quality": q}, "texts": [name, s, plus, "".join(chr(33 + v) for v in q)]}

    def render(self, rec, eol):
        t = rec["texts"]
        return "@" + t[0] + eol + t[1] + eol + t[2] + eol + t[3] + eol


def _interval(rng, prof):
    a = uint(rng, prof)
    b = a + uint(rng, prof)
    return a, b


class Bed3(Format):
    name = "bed3"
    suffix = ".bed"
    fields = ("chromosome", "start", "stop")

    def gen_record(self, rng, prof, style, i):
        c = "chr" + ident(rng, prof, string.digits + "XYM_", string.digits + "XYM")
        if rng.random() < 0.15:
            c = rng.choice(["1", "X", "2", "MT", "10"])          # Ensembl-style names without the 'chr' prefix
        a, b = _interval(rng, prof)
        nc = style.get("noncanon")
        return {"values": {"chromosome": c, "start": a, "stop": b}, "texts": [c, spell_int(a, rng, nc), spell_int(b, rng, nc)]}


class Bed6(Bed3):
    name = "bed6"
    buffer = "Bed6Buffer"
    fields = Bed3.fields + ("name", "score", "strand")

    def gen_record(self, rng, prof, style, i):
        r = super().gen_record(rng, prof, style, i)
        nc = style.get("noncanon")
        name = "n%d%s" % (i, ident(rng, prof))
        mode = style.get("score_mode", "int")
        if mode == "dot":
            score, st = 0, "."
        elif mode == "mixed" and rng.random() < 0.4:
            score, st = 0, "."
        else:
            score = rng.randint(0, 1000) if rng.random() < 0.8 else uint(rng, prof)
            if style.get("score_small"):
                score = rng.randint(0, 9)       # a column in which every value (and every '.') is one character wide
            st = spell_int(score, rng, nc) if not style.get("score_small") else str(score)
        strand = rng.choice("+-.") if style.get("dot_strand") else rng.choice("+-")
        r["values"].update(name=name, score=score, strand=strand)
        r["texts"] += [name, st, strand]
        return r


class Bed12(Bed6):
    name = "bed12"
    buffer = "Bed12Buffer"
    fields = Bed6.fields + ("thick_start", "thick_end", "item_rgb", "block_count", "block_sizes", "block_starts")

    def gen_record(self, rng, prof, style, i):
        r = super().gen_record(rng, prof, style, i)
        v = r["values"]
        ts = rng.randint(v["start"], v["stop"])
        te = rng.randint(ts, v["stop"])
        rgb = rng.choice(["0", "255,0,0", "%d,%d,%d" % (rng.randint(0, 255), rng.randint(0, 255), rng.randint(0, 255))])
        n = rng.choice([1, 1, 2, 3, 5])
        sizes = [uint(rng, prof, 1) for _ in range(n)]
        starts = sorted(uint(rng, prof) for _ in range(n))
        starts[0] = 0
        tc = "," if style.get("trailing_comma") else ""
        v.update(thick_start=ts, thick_end=te, item_rgb=rgb, block_count=n, block_sizes=sizes, block_starts=starts)
        r["texts"] += [str(ts), str(te), rgb, str(n), ",".join(map(str, sizes)) + tc, ",".join(map(str, starts)) + tc]
        return r


class Csv4(Format):
    """a user-defined delimited table with a header line and a delimiter that is not the tab (get_bufferclass_for_datatype)"""
    name = "csv4"
    suffix = ".csv"
    buffer = "@delimited:,"
    delimiter = ","
    fields = ("chromosome", "start", "stop", "score")

    def header(self, rng, style):
        return self.delimiter.join(self.fields) + "\n"

    def gen_record(self, rng, prof, style, i):
        c = "chr" + ident(rng, prof, string.digits + "XYM_", string.digits + "XYM")
        a, b = _interval(rng, prof)
        sc = rng.randint(0, 1000)
        nc = style.get("noncanon")
        return {"values": {"chromosome": c, "start": a, "stop": b, "score": sc}, "texts": [c, spell_int(a, rng, nc), spell_int(b, rng, nc), spell_int(sc, rng, nc)]}

    def render(self, rec, eol):
        return self.delimiter.join(rec["texts"]) + eol


class Ssv4(Csv4):
    name = "ssv4"
    suffix = ".ssv"
    buffer = "@delimited:;"
    delimiter = ";"


class BedGraph(Bed3):
    name = "bdg"
    suffix = ".bdg"
    fields = Bed3.fields + ("value",)

    def gen_record(self, rng, prof, style, i):
        r = super().gen_record(rng, prof, style, i)
        x = gen_float(rng, prof)
        r["values"]["value"] = x
        r["texts"].append(spell_float(x, rng, style.get("noncanon")))
        return r


class NarrowPeak(Bed6):
    name = "narrowpeak"
    suffix = ".narrowPeak"
    buffer = None
    fields = Bed6.fields + ("signal_value", "p_value", "q_value", "summit")

    def gen_record(self, rng, prof, style, i):
        style = dict(style, score_mode="int")
        r = super().gen_record(rng, prof, style, i)
        nc = style.get("noncanon")
        sv, pv, qv = abs(gen_float(rng, prof)), abs(gen_float(rng, prof)), abs(gen_float(rng, prof))
        if rng.random() < 0.2:
            pv = -1.0
        summit = rng.choice([-1, rng.randint(0, max(0, r["values"]["stop"] - r["values"]["start"]))]) if rng.random() < 0.3 else rng.randint(0, 500)
        r["values"].update(signal_value=sv, p_value=pv, q_value=qv, summit=summit)
        r["texts"] += [spell_float(sv, rng, nc), spell_float(pv, rng, nc), spell_float(qv, rng, nc), str(summit)]
        return r


class ChromSizes(Format):
    name = "sizes"
    suffix = ".sizes"
    fields = ("name", "size")

    def gen_record(self, rng, prof, style, i):
        n = "chr%d%s" % (i, ident(rng, prof, IDCHARS, "_ab1"))
        s = uint(rng, prof, 1)
        return {"values": {"name": n, "size": s}, "texts": [n, spell_int(s, rng, style.get("noncanon"))]}


class Gfa(Format):
    name = "gfa"
    suffix = ".gfa"
    fields = ("name", "sequence")

    def gen_record(self, rng, prof, style, i):
        n = "s%d%s" % (i, ident(rng, prof))
        s = seq(rng, prof)
        return {"values": {"name": n, "sequence": s}, "texts": ["S", n, s]}


class Pairs(Format):
    name = "pairs"
    suffix = ".pairs"
    fields = ("read_id", "chrom1", "pos1", "chrom2", "pos2", "strand1", "strand2")

    def header(self, rng, style):
        return "## pairs format v1.0\n#columns: readID chr1 pos1 chr2 pos2 strand1 strand2\n"

    def gen_record(self, rng, prof, style, i):
        v = {"read_id": "p%d%s" % (i, ident(rng, prof)), "chrom1": "chr" + ident(rng, prof, string.digits, string.digits), "pos1": uint(rng, prof),
             "chrom2": "chr" + ident(rng, prof, string.digits, string.digits), "pos2": uint(rng, prof), "strand1": rng.choice("+-"), "strand2": rng.choice("+-")}
        nc = style.get("noncanon")
        return {"values": v, "texts": [v["read_id"], v["chrom1"], spell_int(v["pos1"], rng, nc), v["chrom2"], spell_int(v["pos2"], rng, nc), v["strand1"], v["strand2"]]}


class Gtf(Format):
    name = "gtf"
    suffix = ".gtf"
    lazy = False
    fields = ("chromosome", "source", "feature_type", "start", "stop", "score", "strand", "phase", "atributes")

    def header(self, rng, style):
        return "#!genome-build X\n" if style.get("comments") else ""

    def attributes(self, rng, prof, i):
        g = "G%d%s" % (i, ident(rng, prof))
        t = "T%d%s" % (i, ident(rng, prof))
        return 'gene_id "%s"; transcript_id "%s";' % (g, t) + (' exon_id "E%d";' % i if rng.random() < 0.5 else "")

    def gen_record(self, rng, prof, style, i):
        a, b = _interval(rng, prof)
        v = {"chromosome": "chr" + ident(rng, prof, string.digits, string.digits), "source": ident(rng, prof), "feature_type": rng.choice(["gene", "transcript", "exon", "CDS"]),
             "start": a + 1, "stop": b + 1, "score": rng.choice([".", "0.5", "12"]), "strand": rng.choice("+-"), "phase": rng.choice([".", "0", "1", "2"]),
             "atributes": self.attributes(rng, prof, i)}
        nc = style.get("noncanon")
        return {"values": v, "texts": [v["chromosome"], v["source"], v["feature_type"], spell_int(v["start"], rng, nc), spell_int(v["stop"], rng, nc), v["score"], v["strand"], v["phase"], v["atributes"]]}


class Gff3(Gtf):
    name = "gff3"
    suffix = ".gff3"
    lazy = True
    interior_comments = True

    def header(self, rng, style):
        return "##gff-version 3\n"

    def attributes(self, rng, prof, i):
        return "ID=g%d%s;Name=%s" % (i, ident(rng, prof), ident(rng, prof))


class Wig(BedGraph):
    name = "wig"
    suffix = ".wig"
    interior_comments = True

    def header(self, rng, style):
        return "#bedGraph section chr1:0-100\n"


VCF_INFO_DEFS = [
    ("DP", "1", "Integer"), ("AF", "A", "Float"), ("DB", "0", "Flag"), ("AA", "1", "String"), ("NS", "1", "Integer"), ("MQ", "1", "Float"), ("AC", ".", "Integer"),
    ("DBID", "1", "String"), ("H2", "0", "Flag"), ("H2X", "1", "Integer"),
]


# the same IDs declared with other Types / Numbers: what a key means is decided by each file's own header
VCF_INFO_DEFS_ALT = [
    ("DP", "1", "Float"), ("AF", "A", "Float"), ("DB", "0", "Flag"), ("AA", "1", "Integer"), ("NS", ".", "Integer"), ("MQ", "1", "String"), ("AC", "1", "Integer"),
    ("DBID", "1", "String"), ("H2", "0", "Flag"), ("H2X", "1", "Float"),
]


# the same IDs and Types, only the Number differs (scalar <-> list)
VCF_INFO_DEFS_NUM = [
    ("DP", ".", "Integer"), ("AF", "1", "Float"), ("DB", "0", "Flag"), ("AA", "1", "String"), ("NS", "1", "Integer"), ("MQ", ".", "Float"), ("AC", "1", "Integer"),
    ("DBID", "1", "String"), ("H2", "0", "Flag"), ("H2X", "1", "Integer"),
]


def info_defs(style):
    v = (style or {}).get("info_defs_alt")
    return VCF_INFO_DEFS_NUM if v == "number" else (VCF_INFO_DEFS_ALT if v else VCF_INFO_DEFS)


class Vcf(Format):
    name = "vcf"
    suffix = ".vcf"
    fields = ("chromosome", "position", "id", "ref_seq", "alt_seq", "quality", "filter", "info")
    with_info_header = True
    n_samples = 0
    phased = None

    def header(self, rng, style):
        lines = ["##fileformat=VCFv4.2", "##source=bnpmon%d" % rng.randrange(10 ** 6)]      # per-file header text
        if self.with_info_header:
            for k, num, typ in info_defs(style):
                lines.append('##INFO=<ID=%s,Number=%s,Type=%s,Description="%s field">' % (k, num, typ, k))
        lines.append('##FILTER=<ID=q10,Description="Quality below 10">')
        cols = "#CHROM\tPOS\tID\tREF\tALT\tQUAL\tFILTER\tINFO"
        if self.n_samples:
            lines.append('##FORMAT=<ID=GT,Number=1,Type=String,Description="Genotype">')
            cols += "\tFORMAT\t" + "\t".join("S%d" % j for j in range(self.n_samples))
        lines.append(cols)
        return "\n".join(lines) + "\n"

    def gen_info(self, rng, prof, n_alt, style=None):
        info = {}
        parts = []
        defs = info_defs(style)
        keys = [d for d in defs if rng.random() < 0.6]
        if not keys:
            keys = [defs[0]]
        if rng.random() < 0.08:
            keys = [rng.choice([d for d in defs if d[2] == "Flag"] or defs[:1])]      # the whole INFO field is one short flag (shorter than most keys)
        for k, num, typ in keys:
            if typ == "Flag":
                info[k] = True
                parts.append(k)
                continue
            if typ == "Integer" and num == "1":
                val = uint(rng, prof)
                txt = str(val)
            elif typ == "Integer":
                val = [uint(rng, prof) for _ in range(rng.randint(1, 3))]
                txt = ",".join(map(str, val))
            elif typ == "Float" and num == "1":
                val = round(rng.uniform(0, 100) if rng.random() < 0.6 else rng.uniform(0, 1), rng.randint(0, 3))
                txt = spell_float(val, rng, (style or {}).get("noncanon"))          # '.5', '5', '5.00' are the same Float
            elif typ == "Float":
                val = [round(rng.uniform(0, 1), rng.randint(1, 4)) for _ in range(n_alt)]
                txt = ",".join(spell_float(x, rng, (style or {}).get("noncanon")) for x in val)
            else:
                val = ident(rng, prof)
                txt = val
            info[k] = val
            parts.append("%s=%s" % (k, txt))
        return info, ";".join(parts)

    def gen_record(self, rng, prof, style, i):
        n_alt = 1 if (style.get("biallelic") or self.phased) else rng.choice([1, 1, 2])
        ref = seq(rng, prof, DNA, [1, 1, 2, 4])
        alts = [seq(rng, prof, DNA, [1, 1, 3]) for _ in range(n_alt)]
        pos1 = uint(rng, prof, 1)
        info, info_t = self.gen_info(rng, prof, n_alt, style)
        v = {"chromosome": "chr" + ident(rng, prof, string.digits, string.digits), "position": pos1 - 1, "id": rng.choice([".", "rs%d" % i + ident(rng, prof, string.digits, string.digits)]),
             "ref_seq": ref, "alt_seq": ",".join(alts), "quality": rng.choice([".", "29", "3.5", "100"]), "filter": rng.choice(["PASS", ".", "q10"]),
             "info": info, "info_text": info_t}
        texts = [v["chromosome"], spell_int(pos1, rng, style.get("noncanon")), v["id"], ref, v["alt_seq"], v["quality"], v["filter"], info_t]
        if self.n_samples:
            gts = []
            for _ in range(self.n_samples):
                a, b = rng.randint(0, n_alt), rng.randint(0, n_alt)
                sep = "|" if (self.phased if self.phased is not None else rng.random() < 0.5) else "/"
                if self.phased is None and rng.random() < 0.1:
                    gts.append("./.")
                else:
                    gts.append("%d%s%d" % (a, sep, b))
            v["genotypes"] = gts
            if style.get("rich_format") and rng.random() < 0.5:
                # records may use different FORMATs; sample fields then carry more sub-fields after the genotype
                fmt_keys = "GT:AD:DP:GQ:PL"
                samples = ["%s:%d,%d:%d:%d:%s" % (g, rng.randint(0, 99), rng.randint(0, 99), rng.randint(0, 500), rng.randint(0, 99), ",".join(str(rng.randint(0, 99999)) for _ in range(rng.choice([3, 6, 10])))) for g in gts]
                texts += [fmt_keys] + samples
            else:
                texts += ["GT"] + gts
        return {"values": v, "texts": texts}

    def expected(self, records):
        cols = super().expected(records)
        return cols


class VcfNoInfoHeader(Vcf):
    name = "vcf_noinfo"
    with_info_header = False


class VcfGenotypes(Vcf):
    name = "vcf_gt"
    n_samples = 3


class VcfPhased(Vcf):
    name = "vcf_phased"
    n_samples = 2
    phased = True


class Sam(Format):
    name = "sam"
    suffix = ".sam"
    fields = ("name", "flag", "chromosome", "position", "mapq", "cigar", "next_chromosome", "next_position", "length", "sequence", "quality", "extra")

    def header(self, rng, style):
        # every file has its own header text (a program line with a per-file id): a header is a property of the file it came from
        return "@HD\tVN:1.6\tSO:coordinate\n@SQ\tSN:chr1\tLN:100000\n@SQ\tSN:chr2\tLN:5000\n@PG\tID:gen%d\tPN:bnpmon\n" % rng.randrange(10 ** 6)

    def gen_record(self, rng, prof, style, i):
        s = seq(rng, prof, "ACGTN")
        n = len(s)
        cigar = "%dM" % n if rng.random() < 0.5 else ("%dM%dI%dM" % (1, max(n - 2, 0), 1) if n >= 3 else "%dM" % n)
        qual = "".join(chr(33 + rng.randint(0, 40)) for _ in s)
        tags = []
        if style.get("tags", True):
            for _ in range(rng.choice([0, 0, 1, 2, 3])):
                tags.append(rng.choice(["NM:i:%d" % rng.randint(0, 9), "MD:Z:%s" % ident(rng, prof), "AS:i:%d" % rng.randint(0, 99), "XS:A:+"]))
        v = {"name": "read%d%s" % (i, ident(rng, prof)), "flag": rng.choice([0, 16, 99, 147, 4, 2048, 83]), "chromosome": rng.choice(["chr1", "chr2"]), "position": uint(rng, prof, 1),
             "mapq": rng.randint(0, 60), "cigar": cigar, "next_chromosome": rng.choice(["=", "*", "chr2"]), "next_position": uint(rng, prof), "length": rng.choice([0, n, 300]) * rng.choice([1, -1]),
             "sequence": s, "quality": qual, "extra": "\t".join(tags)}
        nc = style.get("noncanon")
        texts = [v["name"], str(v["flag"]), v["chromosome"], spell_int(v["position"], rng, nc), str(v["mapq"]), cigar, v["next_chromosome"], str(v["next_position"]), str(v["length"]), s, qual] + tags
        return {"values": v, "texts": texts}


FORMATS = {f.name: f for f in [Fasta2(), FastaWrapped(), Fastq(), Bed3(), Bed6(), Bed12(), BedGraph(), NarrowPeak(), ChromSizes(), Gfa(), Pairs(), Gtf(), Gff3(), Wig(),
                               Vcf(), VcfNoInfoHeader(), VcfGenotypes(), VcfPhased(), Sam(), Csv4(), Ssv4()]}


def make_file(fmt, rng, n, prof="normal", style=None):
    """Draw n records and render the file.  style: eol ('\\n'|'\\r\\n'), final_newline (bool), noncanon, comments, ..."""
    if isinstance(fmt, str):
        fmt = FORMATS[fmt]
    style = dict(style or {})
    eol = style.get("eol", "\n")
    records = [fmt.gen_record(rng, prof, style, i) for i in range(n)]
    raws = [fmt.render(r, eol) for r in records]
    header = fmt.header(rng, style)
    if eol != "\n" and header and style.get("crlf_header", False):
        header = header.replace("\n", eol)
    body_parts = []
    for i, raw in enumerate(raws):
        if getattr(fmt, "interior_comments", False) and style.get("comments") and i > 0 and rng.random() < 0.3:
            body_parts.append("#interior comment %d%s" % (i, eol))
        body_parts.append(raw)
    body = "".join(body_parts)
    if not style.get("final_newline", True) and body.endswith(eol):
        body = body[:-len(eol)]
    return {"fmt": fmt.name, "header": header, "records": records, "raws": raws, "body": body, "data": (header + body).encode("latin1"),
            "eol": eol, "final_newline": style.get("final_newline", True), "style": style, "profile": prof}


def float_close(a, b, ulp=4):
    if a == b:
        # the two zeros are different doubles: '-0.0' denotes the one with the sign bit
        return not (a == 0 and isinstance(a, float) and isinstance(b, float) and math.copysign(1.0, a) != math.copysign(1.0, b))
    if isinstance(a, float) and isinstance(b, float) and math.isnan(a) and math.isnan(b):
        return True
    try:
        return abs(a - b) <= ulp * math.ulp(max(abs(a), abs(b)))
    except Exception:
        return False
