"""R2 — BAM encoder and decoder written from the SAM/BAM specification (SAMv1 §4).  Imports nothing from bionumpy.

Records are dicts: {ref_id, pos, name, mapq, flag, cigar [(op_char, length)], seq (str over SEQ_ALPHABET), qual [int] | None (missing -> 0xFF),
next_ref_id, next_pos, tlen, tags (bytes)}.
"""
import gzip
import struct
import zlib

SEQ_ALPHABET = "=ACMGRSVTWYHKDBN"
CIGAR_OPS = "MIDNSHP=X"
EOF_BLOCK = bytes.fromhex("1f8b08040000000000ff0600424302001b0003000000000000000000")


def reg2bin(beg, end):
    end -= 1
    if beg >> 14 == end >> 14:
        return ((1 << 15) - 1) // 7 + (beg >> 14)
    if beg >> 17 == end >> 17:
        return ((1 << 12) - 1) // 7 + (beg >> 17)
    if beg >> 20 == end >> 20:
        return ((1 << 9) - 1) // 7 + (beg >> 20)
    if beg >> 23 == end >> 23:
        return ((1 << 6) - 1) // 7 + (beg >> 23)
    if beg >> 26 == end >> 26:
        return ((1 << 3) - 1) // 7 + (beg >> 26)
    return 0


def ref_length(cigar):
    return sum(n for op, n in cigar if op in "MDN=X")


def encode_record(r):
    name = r["name"].encode("ascii") + b"\x00"
    cigar = b"".join(struct.pack("<I", (n << 4) | CIGAR_OPS.index(op)) for op, n in r["cigar"])
    seq = r["seq"]
    codes = [SEQ_ALPHABET.index(c) for c in seq]
    if len(codes) % 2:
        codes.append(0)
    packed = bytes((codes[i] << 4) | codes[i + 1] for i in range(0, len(codes), 2))
    qual = bytes([0xFF] * len(seq)) if r.get("qual") is None else bytes(r["qual"])
    assert len(qual) == len(seq)
    end = r["pos"] + max(ref_length(r["cigar"]), 1)
    body = struct.pack("<iiBBHHHIiii", r["ref_id"], r["pos"], len(name), r["mapq"], reg2bin(max(r["pos"], 0), max(end, 1)), len(r["cigar"]), r["flag"], len(seq),
                       r.get("next_ref_id", -1), r.get("next_pos", -1), r.get("tlen", 0)) + name + cigar + packed + qual + r.get("tags", b"")
    return struct.pack("<i", len(body)) + body


def encode_header(references, text="@HD\tVN:1.6\n"):
    t = text.encode("ascii")
    out = b"BAM\x01" + struct.pack("<i", len(t)) + t + struct.pack("<i", len(references))
    for name, length in references:
        n = name.encode("ascii") + b"\x00"
        out += struct.pack("<i", len(n)) + n + struct.pack("<i", length)
    return out


def bgzf_block(data):
    comp = zlib.compressobj(6, zlib.DEFLATED, -15)
    raw = comp.compress(data) + comp.flush()
    bsize = 12 + 6 + len(raw) + 8 - 1
    assert bsize < 65536
    header = struct.pack("<BBBBIBBH", 31, 139, 8, 4, 0, 0, 255, 6) + b"BC" + struct.pack("<HH", 2, bsize)
    return header + raw + struct.pack("<II", zlib.crc32(data) & 0xFFFFFFFF, len(data) & 0xFFFFFFFF)


def bgzf_compress(payload, cut_points):
    """compress payload as BGZF members cut at the given offsets (records may straddle blocks) + EOF block"""
    cuts = [0] + sorted(c for c in set(cut_points) if 0 < c < len(payload)) + [len(payload)]
    out = b""
    for a, b in zip(cuts[:-1], cuts[1:]):
        for i in range(a, b, 60000):
            out += bgzf_block(payload[i:min(b, i + 60000)])
    return out + EOF_BLOCK


def encode_bam(references, records, cut_points=(), text="@HD\tVN:1.6\n"):
    payload = encode_header(references, text) + b"".join(encode_record(r) for r in records)
    return bgzf_compress(payload, cut_points), payload


def decode_bam(data):
    """-> (references, records) from (possibly multi-member) gzip data."""
    raw = gzip.decompress(data)
    assert raw[:4] == b"BAM\x01", raw[:4]
    l_text = struct.unpack_from("<i", raw, 4)[0]
    p = 8 + l_text
    n_ref = struct.unpack_from("<i", raw, p)[0]
    p += 4
    refs = []
    for _ in range(n_ref):
        l_name = struct.unpack_from("<i", raw, p)[0]
        name = raw[p + 4:p + 4 + l_name - 1].decode("ascii")
        p += 4 + l_name
        refs.append((name, struct.unpack_from("<i", raw, p)[0]))
        p += 4
    records = []
    while p < len(raw):
        bs = struct.unpack_from("<i", raw, p)[0]
        body = raw[p + 4:p + 4 + bs]
        assert len(body) == bs, "truncated record"
        ref_id, pos, l_name, mapq, _bin, n_cig, flag, l_seq, nref, npos, tlen = struct.unpack_from("<iiBBHHHIiii", body, 0)
        q = 32
        name = body[q:q + l_name - 1].decode("ascii")
        q += l_name
        cigar = []
        for _ in range(n_cig):
            v = struct.unpack_from("<I", body, q)[0]
            cigar.append((CIGAR_OPS[v & 15], v >> 4))
            q += 4
        nb = (l_seq + 1) // 2
        seq = "".join(SEQ_ALPHABET[b >> 4] + SEQ_ALPHABET[b & 15] for b in body[q:q + nb])[:l_seq]
        q += nb
        qual = list(body[q:q + l_seq])
        q += l_seq
        records.append({"ref_id": ref_id, "pos": pos, "name": name, "mapq": mapq, "flag": flag, "cigar": cigar, "seq": seq, "qual": qual, "next_ref_id": nref, "next_pos": npos, "tlen": tlen,
                        "tags": body[q:], "raw": raw[p:p + 4 + bs]})
        p += 4 + bs
    return refs, records
