"""Helpers shared by workloads: decoding library objects into plain Python without trusting convenience methods."""
import numpy as np


def text_rows(x):
    """List of row strings of an EncodedRaggedArray / EncodedArray (1-D: one row; 2-D: one string per row) / str / list."""
    if isinstance(x, str):
        return [x]
    if isinstance(x, (list, tuple)):
        return [r if isinstance(r, str) else "".join(r) for r in x]
    name = type(x).__name__
    if name == "EncodedArray":
        if x.ndim == 0:
            return [x.to_string()]
        if x.ndim == 1:
            return [x.to_string()]
        return [row.to_string() for row in x.reshape(-1, x.shape[-1])] if x.shape[-1] > 0 else ["" for _ in range(int(np.prod(x.shape[:-1])))]
    if name == "StringArray":
        return [str(s) for s in x.tolist()]
    r = x.tolist()
    if isinstance(r, str):
        return [r]
    return [s if isinstance(s, str) else "".join(s) for s in r]


def strip_nul(s):
    return s.replace("\x00", "")


def _owner(a):
    while getattr(a, "base", None) is not None and isinstance(a.base, np.ndarray):
        a = a.base
    return a


def bounds_violation(x):
    """M6 result-bounds sanitizer: None if the returned array lies inside its owning allocation and its ragged index
    structure lies inside its data; otherwise a description."""
    from numpy.lib.array_utils import byte_bounds
    name = type(x).__name__
    if isinstance(x, np.ndarray):
        if x.size == 0:
            return None
        own = _owner(x)
        lo, hi = byte_bounds(x)
        olo, ohi = byte_bounds(own)
        if lo < olo or hi > ohi:
            return "ndarray view [%d,%d) outside owning allocation [%d,%d)" % (lo, hi, olo, ohi)
        return None
    if name in ("RaggedArray", "EncodedRaggedArray"):
        shape = x._shape if hasattr(x, "_shape") else x.shape
        try:
            starts = np.asarray(shape.starts)
            lengths = np.asarray(shape.lengths)
        except Exception:
            return None
        data = x.ravel() if name == "RaggedArray" else None
        raw = getattr(x, "_data", None) if name == "RaggedArray" else getattr(x, "_data", None)
        if np.any(lengths < 0):
            return "negative row length"
        if np.any(starts < 0):
            return "negative row start"
        size = None
        d = getattr(x, "_data", None)
        if d is not None:
            size = d.size if hasattr(d, "size") else len(d)
        if size is not None and len(starts) and int((starts + lengths).max()) > size:
            return "row end %d beyond data size %d" % (int((starts + lengths).max()), size)
        return None
    if name == "EncodedArray":
        return bounds_violation(x.raw()) if hasattr(x, "raw") else None
    return None


def chrom_names(col):
    """Names held in a chromosome column (StringArray, EncodedRaggedArray or StringEncoding-encoded EncodedArray)."""
    enc = getattr(col, "encoding", None)
    if enc is not None and type(enc).__name__ == "StringEncoding":
        labels = [str(x) for x in enc.get_labels()]
        raw = np.atleast_1d(np.asarray(col.raw()))
        return [labels[i] for i in raw.tolist()]
    return [str(x) for x in col.tolist()]


def lazy_selection(build, rows, rng, filler):
    """An object equal to build(rows) that is the direct, not yet flattened result of an indexing step on a bigger object.

    build(list of rows) -> row-indexable object (encoded ragged array, RaggedArray, table); filler() -> one extra row.
    Library functions handed such a selection see lazy views (row offsets into a parent buffer) instead of freshly built, contiguous
    data; nothing in the harness looks at the selection before the function under observation does."""
    import numpy as np
    rows = list(rows)
    n = len(rows)
    kind = rng.choice(["reverse", "fancy", "mask", "tail", "step"])
    if n == 0:
        return build([filler()])[:0], "empty-slice"
    if kind == "reverse":
        return build(rows[::-1])[::-1], kind
    if kind == "tail":
        k = rng.randint(1, 3)
        return build([filler() for _ in range(k)] + rows)[k:], kind
    if kind == "step":
        big = []
        for x in rows:
            big += [x, filler()]
        return build(big)[::2], kind
    if kind == "mask":
        big, mask = [], []
        for x in rows:
            while rng.random() < 0.4:
                big.append(filler()); mask.append(False)
            big.append(x); mask.append(True)
        if rng.random() < 0.5:
            big.append(filler()); mask.append(False)
        return build(big)[np.array(mask, dtype=bool)], kind
    order = list(range(n))
    rng.shuffle(order)
    big = [rows[i] for i in order] + [filler() for _ in range(rng.randint(0, 2))]
    pos = {orig: p for p, orig in enumerate(order)}
    return build(big)[np.array([pos[i] for i in range(n)], dtype=int)], "fancy"


def process_history_prelude(rng):
    """Ordinary use of OTHER parts of the library before a workload starts: a real process has usually done something else first, and module-level
    caches, memoised classes and class attributes filled by those calls must not change what the functions under observation return.
    Nothing here is judged; every call is a legitimate public-API use, errors are ignored.  Returns the number of calls made."""
    import numpy as np
    import bionumpy as bnp
    from bionumpy.encodings import alphabet_encoding as ae
    n = 0

    def call(fn):
        nonlocal n
        try:
            fn()
            n += 1
        except Exception:
            pass
    reads = {"ACGTn": (["ACGTNNAC", "TTGNA", "ACGTA"], ae.ACGTnEncoding), "amino": (["ACDEFGHIK", "LMNPQ", "RSTVWY"], ae.AminoAcidEncoding), "rna": (["ACUGGU", "UUGCA"], ae.ACUGEncoding),
             "dna": (["ACGTAC", "GGTCA"], ae.ACGTEncoding), "custom3": (["ABCABC", "CCBA"], ae.AlphabetEncoding("ABC"))}
    items = list(reads.items())
    rng.shuffle(items)
    for name, (rows, enc) in items:
        x = bnp.as_encoded_array(rows, enc)
        for k in rng.sample([1, 2, 3, 4, 5], 3):
            call(lambda: bnp.get_kmers(x, k).tolist())
            call(lambda: bnp.sequence.count_kmers(x, min(k, 3)).counts)
        call(lambda: bnp.get_minimizers(x, 2, 3))
        call(lambda: bnp.match_string(x, rows[0][:2]))
    call(lambda: bnp.sequence.translate_dna_to_protein(bnp.as_encoded_array(["ATGGCCTAA", "TTT"])).tolist())
    call(lambda: bnp.sequence.get_reverse_complement(bnp.as_encoded_array(["ACGTN", "gg"])).tolist())
    for sizes in ({"chr1": 10, "chr2": 7}, {"chr1": 33, "chr2": 5, "chr1_alt": 9}, {"a": 4}, {"chr2": 8, "chr1": 12}):
        call(lambda: bnp.Genome.from_dict(sizes).get_intervals(bnp.datatypes.Interval([list(sizes)[0]], [0], [2])).get_mask().to_dict())
    call(lambda: bnp.bnpdataclass.make_dataclass([("c0", int), ("c1", str)])([1, 2], ["a", "b"]).tolist())
    call(lambda: bnp.bnpdataclass.make_dataclass([("c0", str), ("c1", float)])(["x"], [1.5]).tolist())
    call(lambda: bnp.io.strops.str_to_float(bnp.as_encoded_array(["1.5", "2e3", "-.5"])))
    call(lambda: bnp.io.strops.ints_to_strings(np.array([0, -10, 999])).tolist())
    return n


BLOCK_SIZES = (256, 1000, 1024, 4096, 8192, 10000, 65536, 100000, 1 << 20)


def boundary_length(rng, top=1 << 20):
    """A length at or next to a size where blocked / tabulated / narrow-integer code changes behaviour: k*B-1, k*B, k*B+1 for the block
    sizes programs commonly use.  Workloads add a few of these to their ordinary lengths; the oracle is the same as for short inputs."""
    sizes = [b for b in BLOCK_SIZES if b <= top] or [top]
    b = rng.choice(sizes)
    k = rng.choice([1, 1, 1, 2, 3]) if b * 3 <= top else 1
    return max(0, k * b + rng.choice([-1, 0, 0, 1]))
