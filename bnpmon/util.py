"""Helpers shared by workloads: decoding library objects into plain Python without trusting convenience methods."""
import numpy as np


def text_rows(x):
    """List of row strings of an EncodedRaggedArray / EncodedArray (1-D: one row; 2-D: one string per row) / str / list."""
    if isinstance(x, str):
        return [x]
    if isinstance(x, (list, tuple)):
        return [r if isinstance(r, str) else "".join(r) for r in x]
    name = type(x).__name__
    if name == "EncodedArray":
        if x.ndim == 0:
            return [x.to_string()]
        if x.ndim == 1:
            return [x.to_string()]
        return [row.to_string() for row in x.reshape(-1, x.shape[-1])] if x.shape[-1] > 0 else ["" for _ in range(int(np.prod(x.shape[:-1])))]
    if name == "StringArray":
        return [str(s) for s in x.tolist()]
    r = x.tolist()
    if isinstance(r, str):
        return [r]
    return [s if isinstance(s, str) else "".join(s) for s in r]


def strip_nul(s):
    return s.replace("\x00", "")
